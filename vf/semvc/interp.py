"""Scalar meaning of elementwise tensor code, read from the real AST.

`Interp.eval(expr)` maps a Python expression over tensors (torch methods / functions) or over
Python floats (`math` functions, operators) to a `Val`: an extended real in *linear* mode, an
extended real in *log* mode (the value is represented by its image E = exp(value), E in
[0,+inf] or NaN), a boolean, or an integer.

Log mode makes the transcendental functions algebraic:
    exp(LogOf E) = E            log(a)       = LogOf a   (NaN for a < 0)
    LogOf a + LogOf b = LogOf(a*b)   (0*inf = NaN, as -inf + inf)
    LogOf a - LogOf b = LogOf(a/b)   -LogOf a = LogOf(1/a)
    logaddexp = LogOf(a+b)      log1p(t) = log(1+t)      expm1(x) = exp(x) - 1
    LogOf a < c   <=>  a < exp(c)  (exp(-1) is an uninterpreted constant in (0.3678, 0.3679))
These identities, and the IEEE special-value table in er.py, are the trusted axiomatisation
of torch's elementwise kernels and of Python's math module.
"""
from __future__ import annotations
import ast, z3
from dataclasses import dataclass
from typing import Any, Dict, List, Optional
from vf.semvc import er
from vf.semvc.er import ER

EM1 = z3.Real("EXP_MINUS_1")
EXP_AX = [EM1 > z3.RealVal("0.3678"), EM1 < z3.RealVal("0.3679")]
BIGE = z3.Real("EXP_MAXFLOAT")          # exp(max float):   only BIGE   > 1e30 is assumed
SMALLE = z3.Real("EXP_MINUS_MAXFLOAT")  # exp(-max float):  only 0 < SMALLE < 1e-30 is assumed
EXP_AX += [BIGE > z3.RealVal("1e30"), SMALLE > 0, SMALLE < z3.RealVal("1e-30")]
EXPFUN = z3.Function("EXP", z3.RealSort(), z3.RealSort())
_x = z3.Real("x!exp")
EXP_AX += [z3.ForAll([_x], EXPFUN(_x) > 0)]
AXIOMS = er.BIG_AX + EXP_AX


class Unsupported(Exception):
    pass


class Opaque:
    """A non-numeric object (dtype, device, ...) the scalar model does not look into."""
    def __init__(self, what): self.what = what
    def __repr__(self): return f"Opaque({self.what})"


@dataclass
class Val:
    mode: str           # 'lin' | 'log' | 'bool' | 'int'
    t: Any              # ER for lin/log, z3 Bool for bool, z3 Int for int

    def __repr__(self):
        return f"Val({self.mode})"


def lin(x) -> Val: return Val("lin", er.const(x))
def logv(e: ER) -> Val: return Val("log", e)
def boolv(b) -> Val: return Val("bool", b if z3.is_expr(b) else z3.BoolVal(bool(b)))


def exp_const(c) -> ER:
    """E-image of a log-space constant."""
    if isinstance(c, Val):
        if c.mode == "log": return c.t
        raise Unsupported("exp of symbolic linear value")
    c = float(c)
    if c != c: return ER(er.NAN, 0)
    if c == float("inf"): return ER(er.PINF, 0)
    if c == float("-inf"): return er.const(0.0)
    if c == 0.0: return er.const(1.0)
    if c == -1.0: return ER(er.FIN, EM1)
    raise Unsupported(f"exp of constant {c}")


def log_of_lin(a: ER) -> Val:
    """log of a linear value: NaN for negatives, -inf for 0 (E = 0), +inf for +inf."""
    e = er.ite(z3.Or(a.nan, a.neg()), ER(er.NAN, 0), a)
    return logv(e)


def val_eq(a: Val, b: Val):
    if a.mode != b.mode:
        raise Unsupported(f"comparing {a.mode} with {b.mode}")
    if a.mode in ("lin", "log"):
        return er.eq(a.t, b.t)
    return a.t == b.t


class Interp:
    """Evaluates expressions / simple statement lists.  `py=True`: Python float semantics for
    bare-name calls (math.log etc. raise on domain errors; `/` raises on a zero divisor)."""

    def __init__(self, env: Dict[str, Any], log_names=()):
        self.env = dict(env)
        self.raises: List[Any] = []     # conditions under which Python raises (domain errors)
        self.notes: List[str] = []

    # ---- helpers -------------------------------------------------------------
    def _num(self, v) -> Val:
        if isinstance(v, Val): return v
        if isinstance(v, bool): return boolv(v)
        if isinstance(v, (int, float)): return lin(v)
        raise Unsupported(f"not a number: {v!r}")

    def _as_mode(self, v, mode) -> Val:
        """Coerce a constant to the mode of the other operand."""
        if isinstance(v, Val):
            if v.mode == mode: return v
            if v.mode == "int" and mode == "lin": return lin(v.t)
            if v.mode == "bool" and mode == "lin":
                return Val("lin", er.ite(v.t, er.const(1.0), er.const(0.0)))
            if v.mode == "lin" and mode == "log":
                # E = exp(v): known for the special values, an uninterpreted positive function otherwise
                e = v.t
                fe = ER(er.FIN, EXPFUN(e.v))
                return logv(er.ite(e.nan, ER(er.NAN, 0), er.ite(e.ninf, er.const(0.0), er.ite(e.pinf, ER(er.PINF, 0), fe))))
            raise Unsupported(f"mode mismatch {v.mode} vs {mode}")
        if mode == "log": return logv(exp_const(v))
        if mode == "bool": return boolv(bool(v))
        return lin(v)

    def _binary_num(self, a, b):
        a = a if isinstance(a, Val) else None or a
        if isinstance(a, Val) and a.mode in ("lin", "log"):
            return a, self._as_mode(b, a.mode)
        if isinstance(b, Val) and b.mode in ("lin", "log"):
            return self._as_mode(a, b.mode), b
        return self._as_mode(a, "lin"), self._as_mode(b, "lin")

    # ---- arithmetic ----------------------------------------------------------
    def add(self, a, b):
        a, b = self._binary_num(a, b)
        if a.mode == "log": return logv(er.mul(a.t, b.t))
        return Val("lin", er.add(a.t, b.t))

    def sub(self, a, b):
        a, b = self._binary_num(a, b)
        if a.mode == "log": return logv(er.div(a.t, b.t, poszero=True))
        return Val("lin", er.sub(a.t, b.t))

    def mul(self, a, b):
        a, b = self._binary_num(a, b)
        if a.mode == "log": raise Unsupported("product of log-space values")
        return Val("lin", er.mul(a.t, b.t))

    def div(self, a, b, py=False):
        a, b = self._binary_num(a, b)
        if a.mode == "log": raise Unsupported("quotient of log-space values")
        if py:
            self.raises.append(b.t.zero())
        return Val("lin", er.div(a.t, b.t))

    def neg(self, a):
        a = self._num(a)
        if a.mode == "log": return logv(er.div(er.const(1.0), a.t, poszero=True))
        if a.mode == "bool": raise Unsupported("neg of bool")
        return Val("lin", er.neg(a.t))

    def cmp(self, op, a, b):
        a, b = self._binary_num(a, b)
        f = {"lt": er.lt, "le": er.le, "gt": er.gt, "ge": er.ge, "eq": er.eqcmp}[op]
        return boolv(f(a.t, b.t))

    def truth(self, v):
        if isinstance(v, Val):
            if v.mode == "bool": return v.t
            if v.mode == "lin":   # Python truthiness of a float: nonzero (NaN is truthy)
                return z3.Not(v.t.zero())
            if v.mode == "int": return v.t != 0
            raise Unsupported("truthiness of a log-space value")
        return z3.BoolVal(bool(v))

    def where(self, c, a, b):
        c = self.truth(c)
        a, b = self._binary_num(a, b) if not (isinstance(a, Val) and a.mode == "bool") else (a, self._as_mode(b, "bool"))
        if a.mode == "bool": return boolv(z3.If(c, a.t, b.t))
        return Val(a.mode, er.ite(c, a.t, b.t))

    def nan_to_num(self, a, nan=0.0, posinf=None, neginf=None):
        a = self._num(a)
        if a.mode == "log":
            rn = exp_const(0.0 if nan is None else nan)
            rp = ER(er.FIN, BIGE) if posinf is None else exp_const(posinf)
            rm = ER(er.FIN, SMALLE) if neginf is None else exp_const(neginf)
            e = a.t
            # value +inf <-> E = +inf ; value -inf <-> E = 0 ; NaN <-> NaN
            return logv(er.ite(e.nan, rn, er.ite(e.pinf, rp, er.ite(e.zero(), rm, e))))
        return Val("lin", er.nan_to_num(a.t, nan, posinf, neginf))

    # ---- function tables -----------------------------------------------------
    def torch_unary(self, name, a):
        a = self._num(a)
        n = name.rstrip("_")
        if n == "exp":
            if a.mode == "log": return Val("lin", a.t)
            raise Unsupported("exp of a linear value")
        if n == "expm1":
            if a.mode == "log": return Val("lin", er.sub(a.t, er.const(1.0)))
            raise Unsupported("expm1 of a linear value")
        if n == "log":
            if a.mode == "lin": return log_of_lin(a.t)
            if a.mode == "int": return log_of_lin(er.const(a.t))
            raise Unsupported("log of a log-space value")
        if n == "log1p":
            if a.mode == "lin": return log_of_lin(er.add(er.const(1.0), a.t))
            raise Unsupported("log1p of a log-space value")
        if n == "neg": return self.neg(a)
        if n == "abs":
            if a.mode == "lin": return Val("lin", er.abs_(a.t))
        if n == "relu":
            if a.mode == "lin": return Val("lin", er.relu(a.t))
        if n == "logical_not":
            return boolv(z3.Not(self.truth(a)))
        if n == "isnan": return boolv(a.t.nan)
        if n == "isinf": return boolv(a.t.inf)
        raise Unsupported(f"torch unary {name} on {a.mode}")

    def py_unary(self, name, a):
        """Python's math module / builtins on a float."""
        a = self._num(a)
        if a.mode != "lin": raise Unsupported(f"python {name} on {a.mode}")
        t = a.t
        if name == "log":      # math.log: ValueError for x <= 0 (incl. -inf); log(nan)=nan, log(inf)=inf
            self.raises.append(z3.Or(t.neg(), t.zero()))
            return log_of_lin(t)
        if name == "log1p":    # ValueError for x <= -1
            s = er.add(er.const(1.0), t)
            self.raises.append(z3.Or(s.neg(), s.zero()))
            return log_of_lin(s)
        if name == "exp" or name == "expm1":
            raise Unsupported("python exp of a linear value (result is transcendental)")
        if name == "abs": return Val("lin", er.abs_(t))
        if name == "isnan": return boolv(t.nan)
        if name == "isinf": return boolv(t.inf)
        raise Unsupported(f"python {name}")

    # ---- AST -----------------------------------------------------------------
    def const_of(self, node):
        """Python constant value of keyword arguments such as nan=0., posinf=inf, neginf=-inf."""
        v = self.eval(node)
        if isinstance(v, Val):
            return v
        return v

    def eval(self, node):
        m = getattr(self, "e_" + type(node).__name__, None)
        if m is None:
            raise Unsupported(f"expression {type(node).__name__}: {ast.unparse(node)}")
        return m(node)

    def e_Constant(self, n): return n.value

    def e_Name(self, n):
        if n.id in self.env: return self.env[n.id]
        if n.id == "inf": return float("inf")
        if n.id == "nan": return float("nan")
        if n.id in ("True", "False"): return n.id == "True"
        raise Unsupported(f"unbound name {n.id}")

    def e_Attribute(self, n):
        # self.default / self.physical style accesses resolved through env keys "self.default"
        key = ast.unparse(n)
        if key in self.env: return self.env[key]
        if key in ("float_info.max",): return Val("lin", ER(er.FIN, er.BIG))
        root = n
        while isinstance(root, ast.Attribute): root = root.value
        if isinstance(root, ast.Name) and root.id in ("self", "torch"):
            return Opaque(key)          # dtype / device / other non-numeric configuration
        raise Unsupported(f"attribute {key}")

    def e_UnaryOp(self, n):
        v = self.eval(n.operand)
        if isinstance(n.op, ast.USub):
            if not isinstance(v, Val): return -v
            return self.neg(v)
        if isinstance(n.op, ast.Not):
            return boolv(z3.Not(self.truth(v)))
        if isinstance(n.op, ast.Invert):
            return boolv(z3.Not(self.truth(v)))
        raise Unsupported(ast.unparse(n))

    def e_BinOp(self, n):
        a, b = self.eval(n.left), self.eval(n.right)
        if not isinstance(a, Val) and not isinstance(b, Val):
            return eval(compile(ast.Expression(n), "<c>", "eval"), {"inf": float("inf")})
        py = getattr(self, "py_division", False)
        if isinstance(n.op, ast.Add): return self.add(a, b)
        if isinstance(n.op, ast.Sub): return self.sub(a, b)
        if isinstance(n.op, ast.Mult): return self.mul(a, b)
        if isinstance(n.op, ast.Div): return self.div(a, b, py=py)
        raise Unsupported(ast.unparse(n))

    def e_Compare(self, n):
        if len(n.ops) != 1: raise Unsupported(ast.unparse(n))
        a, b = self.eval(n.left), self.eval(n.comparators[0])
        if isinstance(n.ops[0], (ast.Is, ast.IsNot)):
            if a is None or b is None:
                r = (a is None and b is None)
                return r if isinstance(n.ops[0], ast.Is) else not r
            raise Unsupported(ast.unparse(n))
        op = {ast.Lt: "lt", ast.LtE: "le", ast.Gt: "gt", ast.GtE: "ge", ast.Eq: "eq"}.get(type(n.ops[0]))
        if op is None: raise Unsupported(ast.unparse(n))
        if isinstance(a, Val) and a.mode == "int" or isinstance(b, Val) and b.mode == "int":
            ai = a.t if isinstance(a, Val) else a
            bi = b.t if isinstance(b, Val) else b
            return boolv({"lt": ai < bi, "le": ai <= bi, "gt": ai > bi, "ge": ai >= bi, "eq": ai == bi}[op])
        return self.cmp(op, a, b)

    def e_IfExp(self, n):
        c0 = self.eval(n.test)
        if isinstance(c0, bool):
            return self.eval(n.body if c0 else n.orelse)
        c = self.truth(c0)
        # evaluate both branches, but Python only raises in the branch taken
        r0 = len(self.raises)
        a = self.eval(n.body)
        ra = self.raises[r0:]; del self.raises[r0:]
        b = self.eval(n.orelse)
        rb = self.raises[r0:]; del self.raises[r0:]
        self.raises += [z3.And(c, x) for x in ra] + [z3.And(z3.Not(c), x) for x in rb]
        return self.where(boolv(c), a, b)

    def e_BoolOp(self, n):
        vals = [self.eval(v) for v in n.values]
        if all(isinstance(v, Val) and v.mode == "bool" for v in vals):
            f = z3.And if isinstance(n.op, ast.And) else z3.Or
            return boolv(f(*[v.t for v in vals]))
        # Python's `a or b` / `a and b` on floats returns one of the operands
        if len(vals) == 2:
            a, b = vals
            c = self.truth(a)
            return self.where(boolv(c), a, b) if isinstance(n.op, ast.Or) else self.where(boolv(c), b, a)
        raise Unsupported(ast.unparse(n))

    def kwargs(self, call):
        return {k.arg: self.eval(k.value) for k in call.keywords}

    def e_Call(self, n):
        f = n.func
        args = [self.eval(a) for a in n.args]
        kw = self.kwargs(n)
        # torch.fn(...)
        if isinstance(f, ast.Attribute) and isinstance(f.value, ast.Name) and f.value.id == "torch":
            return self.torch_fn(f.attr, args, kw, n)
        # receiver.method(...)
        if isinstance(f, ast.Attribute) and f.attr == "_finfo_max":
            # largest finite value of the tensor's dtype: the same symbol torch.nan_to_num uses
            return Val("lin", ER(er.FIN, er.BIG))
        if isinstance(f, ast.Attribute):
            recv = self.eval(f.value)
            return self.method(f.attr, recv, args, kw, n)
        if isinstance(f, ast.Name):
            if f.id in ("log", "log1p", "exp", "expm1", "abs", "isnan", "isinf"):
                return self.py_unary(f.id, args[0])
            if f.id == "max" and len(args) == 2:
                a, b = self._binary_num(args[0], args[1]); return Val("lin", er.py_max(a.t, b.t))
            if f.id == "min" and len(args) == 2:
                a, b = self._binary_num(args[0], args[1]); return Val("lin", er.py_min(a.t, b.t))
            if f.id == "float": return args[0]
            if f.id == "copysign" and len(args) == 2:
                # copysign(magnitude, sign-source); the sign of a zero is not tracked: fresh boolean for it
                a, b = self._binary_num(args[0], args[1])
                bneg = z3.If(b.t.zero(), b.t.zn, b.t.neg())
                mag = er.abs_(a.t)
                return Val("lin", er.ite(bneg, er.neg(mag), mag))
            h = getattr(self, "helpers", {}).get(f.id)
            if h is not None:
                return self.inline_helper(h, args)
        raise Unsupported(f"call {ast.unparse(n)}")

    def inline_helper(self, fdef, args):
        """A module-level helper function of the same file (python float semantics)."""
        body = [x for x in fdef.body if not (isinstance(x, ast.Expr) and isinstance(x.value, ast.Constant))]
        sub = Interp(dict(zip([a.arg for a in fdef.args.args], args)))
        sub.helpers = getattr(self, "helpers", {})
        sub.py_division = True
        if len(body) == 1 and isinstance(body[0], ast.Return):
            r = sub.eval(body[0].value)
        elif len(body) == 1 and isinstance(body[0], ast.Try):
            # try: return A   except ZeroDivisionError: return B     ==  B where A would raise, else A
            t = body[0]
            if not (len(t.body) == 1 and isinstance(t.body[0], ast.Return) and len(t.handlers) == 1
                    and ast.unparse(t.handlers[0].type) == "ZeroDivisionError"
                    and len(t.handlers[0].body) == 1 and isinstance(t.handlers[0].body[0], ast.Return)):
                raise Unsupported("helper with a try block of another shape")
            a = sub.eval(t.body[0].value)
            cond = z3.Or(*sub.raises) if sub.raises else z3.BoolVal(False)
            sub.raises = []
            sub2 = Interp(dict(sub.env)); sub2.helpers = sub.helpers; sub2.py_division = True
            b = sub2.eval(t.handlers[0].body[0].value)
            self.raises += [z3.And(cond, x) for x in sub2.raises]
            return self.where(boolv(cond), b if isinstance(b, Val) else self._num(b), a)
        else:
            raise Unsupported(f"helper {fdef.name} is not a single return")
        self.raises += sub.raises
        return r

    def torch_fn(self, name, args, kw, node):
        if name in ("exp", "log", "log1p", "expm1", "abs", "relu", "isnan", "isinf", "logical_not"):
            return self.torch_unary(name, args[0])
        if name == "where":
            return self.where(args[0], args[1], args[2])
        if name == "logaddexp":
            return self.method("logaddexp", args[0], args[1:], kw, node)
        if name == "maximum":
            return self.method("maximum", args[0], args[1:], kw, node)
        if name == "nan_to_num":
            kw = dict(kw); kw.pop("out", None)
            return self.nan_to_num(args[0], **kw)
        if name == "as_tensor":
            v = args[0]
            if isinstance(v, Val) and v.mode == "int":
                # dtype given => float conversion; no dtype => stays integer
                return lin(v.t) if "dtype" in kw else v
            return self._num(v)
        if name == "full_like":
            return self._num(args[1])
        raise Unsupported(f"torch.{name}")

    def method(self, name, recv, args, kw, node):
        n = name[:-1] if name.endswith("_") and not name.endswith("__") else name
        if n in ("add", "sub", "mul", "div") and len(args) == 1:
            return getattr(self, n)(recv, args[0])
        if n in ("exp", "log", "log1p", "expm1", "abs", "relu", "neg", "logical_not", "isnan", "isinf"):
            return self.torch_unary(n, recv)
        if n == "logaddexp":
            a, b = self._num(recv), self._num(args[0])
            if a.mode == b.mode == "log": return logv(er.add(a.t, b.t))
            raise Unsupported("logaddexp of linear values")
        if n == "maximum":
            a, b = self._binary_num(recv, args[0])
            return Val(a.mode, er.maximum(a.t, b.t))
        if n in ("lt", "le", "gt", "ge", "eq"):
            return self.cmp(n, recv, args[0])
        if n == "logical_or":
            return boolv(z3.Or(self.truth(recv), self.truth(args[0])))
        if n == "logical_and":
            return boolv(z3.And(self.truth(recv), self.truth(args[0])))
        if n == "where":          # x.where(cond, other) == where(cond, x, other)
            return self.where(args[0], recv, args[1])
        if n == "nan_to_num":
            return self.nan_to_num(recv, *args, **kw)
        if name == "_finfo_max":      # largest finite value of the dtype: the same symbol torch.nan_to_num uses
            return Val("lin", ER(er.FIN, er.BIG))
        if n == "masked_fill":
            return self.where(args[0], args[1], recv)
        if n == "to":
            return recv
        if n == "clamp_min":
            a, b = self._binary_num(recv, args[0]); return Val(a.mode, er.maximum(a.t, b.t))
        if n == "clamp_max":
            a, b = self._binary_num(recv, args[0])
            isnan = z3.Or(a.t.nan, b.t.nan)
            return Val(a.mode, er.ite(isnan, ER(er.NAN, 0), er.ite(er.le(a.t, b.t), a.t, b.t)))
        raise Unsupported(f"method .{name}")

    # ---- statements (straight-line bodies with in-place updates) -------------
    def run(self, stmts) -> Optional[Any]:
        for s in stmts:
            if isinstance(s, ast.Expr) and isinstance(s.value, ast.Constant):
                continue                                    # docstring
            if isinstance(s, ast.Return):
                return self.eval(s.value) if s.value is not None else None
            if isinstance(s, ast.Assign) and len(s.targets) == 1:
                tgt = ast.unparse(s.targets[0])
                self.env[tgt] = self.eval(s.value)
                continue
            if isinstance(s, ast.AugAssign):
                tgt = ast.unparse(s.target)
                cur = self.env[tgt]
                v = self.eval(s.value)
                op = {ast.Add: self.add, ast.Sub: self.sub, ast.Mult: self.mul}.get(type(s.op))
                if isinstance(s.op, ast.Div):
                    self.env[tgt] = self.div(cur, v, py=getattr(self, "py_division", False) and tgt == "self.default")
                elif op:
                    self.env[tgt] = op(cur, v)
                else:
                    raise Unsupported(ast.unparse(s))
                continue
            if isinstance(s, ast.Expr) and isinstance(s.value, ast.Call):
                c = s.value
                v = self.eval(c)
                # in-place: receiver.method_(...)  or  torch.fn(..., out=name)
                out = next((k.value for k in c.keywords if k.arg == "out"), None)
                if out is not None:
                    self.env[ast.unparse(out)] = v; continue
                if isinstance(c.func, ast.Attribute) and c.func.attr.endswith("_"):
                    self.env[ast.unparse(c.func.value)] = v; continue
                raise Unsupported(f"statement with no effect in the scalar model: {ast.unparse(s)}")
            if isinstance(s, ast.If):
                c = self.truth(self.eval(s.test))
                base = dict(self.env); r0 = len(self.raises)
                ra = self.run(s.body); env_a = self.env; rs_a = self.raises[r0:]; del self.raises[r0:]
                self.env = dict(base)
                rb = self.run(s.orelse); env_b = self.env; rs_b = self.raises[r0:]; del self.raises[r0:]
                if ra is not None or rb is not None:
                    raise Unsupported("return inside if")
                self.raises += [z3.And(c, x) for x in rs_a] + [z3.And(z3.Not(c), x) for x in rs_b]
                merged = dict(base)
                for k in set(env_a) | set(env_b):
                    va, vb = env_a.get(k, base.get(k)), env_b.get(k, base.get(k))
                    if va is vb:
                        merged[k] = va
                    else:
                        merged[k] = self.where(boolv(c), self._num(va) if not isinstance(va, Val) else va,
                                               self._num(vb) if not isinstance(vb, Val) else vb)
                self.env = merged
                continue
            if isinstance(s, ast.Pass):
                continue
            raise Unsupported(f"statement {type(s).__name__}: {ast.unparse(s)[:80]}")
        return None
