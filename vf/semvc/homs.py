"""Scalar obligations shared by C07 and C11.

C07: the `multiply_in_place` / `add_in_place` closures each semiring's einsum hands to
     torch_semiring_einsum compute exactly the semiring's mul (in particular 0 x inf = 0).
C11: exp maps Log ops to Real ops, (. > 0) maps Real ops to Bool ops, and Viterbi <= Log:
     the algebraic core of "Log result = log of Real result, Bool = support, Viterbi <= Log".
"""
from __future__ import annotations
import time, z3
from vf import core, prover
from vf.core import Obligation, PROVED, FAILED_NO_INPUT, UNDECIDED
from vf.semvc import er, interp, laws
from vf.semvc.interp import Val, Unsupported


def _prove(rep, name, fn, hyps, goal, where="fggs/semirings.py"):
    r = prover.check_valid(hyps, goal)
    st = PROVED if r.proved else (FAILED_NO_INPUT if r.status == "sat" else UNDECIDED)
    rep.obligations.append(Obligation(name, fn, "scalar", st, r.backend, r.time_s, where, "" if r.proved else r.detail, r.rlimit))


def run_c07(ctx=None) -> core.Report:
    rep = core.Report(property_id="C07", level="other")
    classes = laws.load_classes()
    for cls, inner in (("RealSemiring", "multiply_in_place"), ("LogSemiring", "multiply_in_place"),
                       ("ViterbiSemiring", "add_in_place")):
        name = f"{cls}.einsum.{inner}.is_mul"
        fn = f"fggs.semirings.{cls}.einsum"
        rep.functions_under_contract.append(fn)
        try:
            o = laws.SymOps(cls, classes)
            a, b = o.var("a"), o.var("b")
            got = o.call_nested_inplace("einsum", inner, a, b)
            _prove(rep, name, fn, o.hyps, o.eq(got, o.mul(a, b)))
        except Unsupported as e:
            rep.obligations.append(Obligation(name, fn, "scalar", UNDECIDED, "semvc", 0, "fggs/semirings.py", str(e)))
    rep.trusted_base.append("torch_semiring_einsum: compute_sum folds the given add / multiply callbacks over the summed indices")
    return rep


def run_c11(ctx=None) -> core.Report:
    rep = core.Report(property_id="C11", level="other")
    classes = laws.load_classes()
    R, L, V, Bo = (laws.SymOps(c, classes) for c in laws.SEMIRINGS)
    # shared variables: x, y in [0, inf] -- Real values; the Log/Viterbi values are their logarithms
    x, y = R.var("x"), R.var("y")
    hyps = R.hyps
    lx, ly = Val("log", x.t), Val("log", y.t)
    fn = "fggs.semirings"
    for op in ("add", "mul"):
        # exp(Log.op(log x, log y)) == Real.op(x, y)
        _prove(rep, f"LogSemiring.{op}.is_log_of_RealSemiring.{op}", fn + ".LogSemiring." + op, hyps,
               er.eq(L.call(op, lx, ly).t, R.call(op, x, y).t))
        # support: (Real.op(x,y) > 0) == Bool.op(x > 0, y > 0)
        bx, by = Val("bool", x.t.pos()), Val("bool", y.t.pos())
        _prove(rep, f"BoolSemiring.{op}.is_support_of_RealSemiring.{op}", fn + ".BoolSemiring." + op, hyps,
               Bo.call(op, bx, by).t == R.call(op, x, y).t.pos())
    # Viterbi <= Log, on the exp-images (exp is monotone): the Viterbi ops on log-values are max and +
    vx, vy = Val("log", x.t), Val("log", y.t)
    vadd = er.maximum(x.t, y.t)                              # exp(max(log x, log y)) = max(x, y)
    _prove(rep, "ViterbiSemiring.add.below_LogSemiring.add", fn + ".ViterbiSemiring.add", hyps,
           er.le(vadd, L.call("add", lx, ly).t))
    # Viterbi.mul is the same expression as Log.mul: compare the method ASTs through the scalar model
    xv, yv = V.var("xv"), V.var("yv")
    lv = laws.SymOps("LogSemiring", classes)
    same_src = __import__("ast").unparse(classes["ViterbiSemiring"]["mul"].body[-1]) == \
        __import__("ast").unparse(classes["LogSemiring"]["mul"].body[-1])
    rep.obligations.append(Obligation("ViterbiSemiring.mul.same_as_LogSemiring.mul", fn + ".ViterbiSemiring.mul", "frame",
                                      PROVED if same_src else FAILED_NO_INPUT, "own", 0, "fggs/semirings.py",
                                      "method bodies are the same expression"))
    # from_int compatible: log(Real.from_int n) = Log.from_int n ; support(Real.from_int n) = Bool.from_int n
    n = R.nat("n")
    _prove(rep, "LogSemiring.from_int.is_log_of_RealSemiring.from_int", fn + ".LogSemiring.from_int", R.hyps,
           er.eq(L.from_int(n).t, R.from_int(n).t))
    _prove(rep, "BoolSemiring.from_int.is_support_of_RealSemiring.from_int", fn + ".BoolSemiring.from_int", R.hyps,
           Bo.from_int(n).t == R.from_int(n).t.pos())
    rep.functions_under_contract += [f"{fn}.{c}.{m}" for c in laws.SEMIRINGS for m in ("add", "mul", "from_int")]
    rep.assumptions.append("C11: lifting the scalar homomorphisms (log, support, max <= +) from single operations to whole "
                           "sum-products is by induction over the computation (monotone, continuous maps commute with "
                           "least fixed points) -- argued, not machine-checked")
    return rep


if __name__ == "__main__":
    for r in (run_c07(), run_c11()):
        for o in r.obligations:
            print(f"{o.status:16s} {o.backend:5s} {o.time_s:6.2f}s {o.name}  {o.detail[:110]}")
