"""C06 (scalar clauses): every elementwise PatternedTensor operation treats `default` -- the value
of all virtual elements that have no physical backing -- exactly as torch treats a physical
element holding that value.

For each method of fggs.indices.PatternedTensor listed below, the *real* AST is split into the
expression applied to `self.default` (Python float semantics: math.* raise on domain errors,
`/` raises on a zero divisor) and the operation applied to `self.physical` (torch semantics);
both are evaluated on one symbolic extended real d (NaN excluded: a NaN default marks "unknown",
see DESIGN.md) and the obligation is
        Python does not raise   and   default_expr(d) == physical_op(d).
"""
from __future__ import annotations
import ast, math, os, time
import z3
from vf import core, prover
from vf.core import Obligation, Failure, PROVED, REFUTED, FAILED_NO_INPUT, UNDECIDED
from vf.semvc import er, interp
from vf.semvc.interp import Val, Interp, Unsupported
from vf.semvc.laws import model_value, _j, _unj

SRC = os.path.join(core.REPO, "fggs", "indices.py")
INPLACE = ["neg_", "log_", "log1p_", "relu_", "abs_", "nan_to_num_", "__imul__", "__itruediv__"]
PURE = ["abs", "log", "clamp_min", "clamp_max", "lt", "le", "gt", "ge", "eq", "add", "mul", "sub", "div"]
BOOL = ["logical_not"]
SAME_FUNCTION = {"exp": "exp", "expm1": "expm1"}     # default: math.f(self.default); physical: .f()
NAN_TO_NUM_ARGS = [(0.0, None, None), (0.0, math.inf, None), (-math.inf, math.inf, -math.inf), (0.0, 5.0, -5.0)]


HELPERS = {}


def load_methods():
    tree = ast.parse(open(SRC).read(), SRC)
    HELPERS.clear()
    HELPERS.update({n.name: n for n in tree.body if isinstance(n, ast.FunctionDef) and n.name.startswith("_")})
    for n in tree.body:
        if isinstance(n, ast.ClassDef) and n.name == "PatternedTensor":
            return {f.name: f for f in n.body if isinstance(f, ast.FunctionDef)}
    raise core.CheckerError("class PatternedTensor not found")


def scalar_branch(fdef):
    """Statements executed when `other` is a plain number (the else-branch of the isinstance test)."""
    body = [s for s in fdef.body if not (isinstance(s, ast.Expr) and isinstance(s.value, ast.Constant))]
    if body and isinstance(body[0], ast.If) and "isinstance(other, PatternedTensor)" in ast.unparse(body[0].test):
        return body[0].orelse + body[1:]
    return body


def split_pure(fdef):
    stmts = scalar_branch(fdef)
    rets = [s for s in stmts if isinstance(s, ast.Return)]
    if len(rets) != 1: raise Unsupported("no single return")
    c = rets[0].value
    if not (isinstance(c, ast.Call) and getattr(c.func, "id", "") == "PatternedTensor" and len(c.args) == 4):
        raise Unsupported("not of the form PatternedTensor(physical-op, paxes, vaxes, default-expr)")
    if ast.unparse(c.args[1]) != "self.paxes" or ast.unparse(c.args[2]) != "self.vaxes":
        raise Unsupported("axes are not passed through unchanged")
    return c.args[0], c.args[3]


def mk(name, mode="lin"):
    if mode == "bool":
        return Val("bool", z3.Bool(name)), []
    e = er.var(name)
    return Val("lin", e), [er.wf(e), z3.Not(e.nan)]


def obligations_for(methods):
    """yield (name, function, hyps, goal, vars, case-builder)"""
    for m in INPLACE + PURE + BOOL:
        f = methods.get(m)
        qual = f"fggs.indices.PatternedTensor.{m}"
        if f is None:
            yield (f"{m}.default_twin", qual, None, None, None, "method not found"); continue
        variants = [None]
        if m == "nan_to_num_": variants = NAN_TO_NUM_ARGS
        for var in variants:
            name = f"PatternedTensor.{m}.default_twin" + ("" if var is None else f"[nan={var[0]},posinf={var[1]},neginf={var[2]}]")
            try:
                mode = "bool" if m in BOOL else "lin"
                d, hyps = mk("d", mode)
                vars_ = {"d": d}
                env = {"self.default": d, "self.physical": d}
                params = [a.arg for a in f.args.args if a.arg != "self"]
                if var is not None:
                    env.update(dict(zip(["nan", "posinf", "neginf"], var)))
                else:
                    for p in params:
                        o, h = mk(p)
                        env[p] = o; hyps += h; vars_[p] = o
                if m in INPLACE:
                    it = Interp(env); it.py_division = True; it.helpers = HELPERS
                    it.run(scalar_branch(f)[:-1] if isinstance(scalar_branch(f)[-1], ast.Return) else scalar_branch(f))
                    dv, pv = it.env["self.default"], it.env["self.physical"]
                    raises = it.raises
                else:
                    pe, de = split_pure(f)
                    ip = Interp(env); pv = ip.eval(pe)
                    idf = Interp(env); idf.py_division = True; idf.helpers = HELPERS; dv = idf.eval(de)
                    raises = idf.raises
                if not isinstance(dv, Val): dv = interp.lin(dv) if mode == "lin" else interp.boolv(dv)
                goal = z3.And(z3.Not(z3.Or(*raises)) if raises else z3.BoolVal(True), interp.val_eq(dv, pv))
                yield (name, qual, interp.AXIOMS + hyps, goal, vars_, {"method": m, "variant": var})
            except Unsupported as e:
                yield (name, qual, None, None, None, f"outside the scalar subset: {e}")
    for m, fn in SAME_FUNCTION.items():
        f = methods.get(m)
        qual = f"fggs.indices.PatternedTensor.{m}"
        ok = False; src = ""
        if f is not None:
            try:
                pe, de = split_pure(f)
                src = f"{ast.unparse(pe)} | {ast.unparse(de)}"
                d_src = ast.unparse(de)
                direct = d_src == f"{fn}(self.default)"
                # or through the helper _exp(x, f=exp): `try: return f(x) except OverflowError: return inf`
                via_helper = d_src in ((f"_exp(self.default, {fn})",) + (("_exp(self.default)",) if fn == "exp" else ())) \
                    and "_exp" in HELPERS and ast.unparse(HELPERS["_exp"].body[-1]).replace("\n", " ").split() == \
                    "try: return f(x) except OverflowError: return inf".split() \
                    and ast.unparse(HELPERS["_exp"].args) == "x: float, f: Callable[[float], float]=exp"
                ok = ast.unparse(pe) == f"self.physical.{fn}()" and (direct or via_helper)
            except Unsupported as e:
                src = str(e)
        yield (f"PatternedTensor.{m}.same_function_on_default_and_physical", qual, "syntactic", ok, None, src)


def run(ctx=None) -> core.Report:
    rep = core.Report(property_id="C06", level="other")
    methods = load_methods()
    where = "fggs/indices.py"
    for name, qual, hyps, goal, vars_, info in obligations_for(methods):
        if qual not in rep.functions_under_contract: rep.functions_under_contract.append(qual)
        if hyps == "syntactic":
            rep.obligations.append(Obligation(name, qual, "frame", PROVED if goal else FAILED_NO_INPUT, "own", 0.0, where, info))
            continue
        if hyps is None:
            rep.obligations.append(Obligation(name, qual, "scalar", UNDECIDED, "semvc", 0.0, where, str(info)))
            continue
        r = prover.check_valid(hyps, goal)
        if r.proved:
            rep.obligations.append(Obligation(name, qual, "scalar", PROVED, r.backend, r.time_s, where, rlimit=r.rlimit))
        elif r.status == "sat" and r.model is not None:
            vals = {n: _j(model_value(r.model, v, "lin")) for n, v in vars_.items()}
            case = dict(info, values=vals)
            rep_ok = replay_case(case, quiet=True)
            st = REFUTED if rep_ok else FAILED_NO_INPUT
            det = f"counter-model {vals}" + ("" if rep_ok else " (did not reproduce natively)")
            rep.obligations.append(Obligation(name, qual, "scalar", st, r.backend, r.time_s, where, det))
            rep.failures.append(Failure(obligation=name, what=f"{info['method']} treats default {vals} differently from a physical element",
                                        replay={"module": "vf.semvc.pt_ops", "func": "replay_case", "case": case} if rep_ok else None,
                                        detail=det, no_input=not rep_ok, key=f"default_twin.{info['method']}"))
        else:
            rep.obligations.append(Obligation(name, qual, "scalar", UNDECIDED, r.backend, r.time_s, where, r.detail))
    rep.trusted_base.append("IEEE special-value table for torch elementwise kernels and Python float / math semantics (vf/semvc/er.py, interp.py)")
    rep.assumptions.append("C06 scalar clauses: NaN defaults are excluded; math.exp/expm1 OverflowError on huge finite defaults is not modelled (floats as reals)")
    return rep


def replay_case(case, quiet=False) -> bool:
    """Apply the real method to a PatternedTensor whose default is d and whose single physical element is d."""
    import torch, warnings
    from fggs.indices import PatternedTensor, PhysicalAxis, SumAxis
    m = case["method"]
    vals = {k: _unj(v) for k, v in case["values"].items()}
    d = vals["d"]
    args = [vals[k] for k in vals if k != "d"]
    if case.get("variant") is not None:
        kw = dict(zip(["nan", "posinf", "neginf"], case["variant"])); args = []
    else:
        kw = {}
    dt = torch.bool if isinstance(d, bool) else torch.float64
    k = PhysicalAxis(2)
    t = PatternedTensor(torch.tensor([d, d], dtype=dt), (k,), (SumAxis(1, k, 0),), d)   # [default, d, d]
    try:
        with warnings.catch_warnings():
            warnings.simplefilter("ignore")
            r = getattr(t, m)(*args, **kw)
        dense = (r if r is not None else t).to_dense()
    except Exception as e:
        if not quiet: print(f"{m}({args},{kw}) with default {d} raised {type(e).__name__}: {e}")
        return True
    a, b = dense[0], dense[1]
    same = bool(torch.isclose(a.double(), b.double(), rtol=1e-12, atol=0, equal_nan=True)) if dt != torch.bool or dense.dtype != torch.bool else bool(a == b)
    if not quiet: print(f"{m}: default-backed element -> {a.item()}, physical element -> {b.item()}")
    return not same


if __name__ == "__main__":
    for o in run().obligations:
        print(f"{o.status:16s} {o.backend:5s} {o.time_s:6.2f}s {o.name}  {o.detail[:110]}")
