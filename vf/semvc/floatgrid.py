"""IEEE supplement to the (real-arithmetic) star obligations: star(x) evaluated by the real code in
float32/float64 on a grid that includes arguments extremely close to the boundary of convergence,
against a reference computed with exact rational / high-precision arithmetic (mpmath).
A *bounded* check (labelled so): the laws are proved over the reals in laws.py; this catches
formulas that are right over the reals but numerically wrong (cancellation, wrong branch of a
stable-formula switch)."""
from __future__ import annotations
import math
from vf import core
from vf.core import Bounded, Failure


def _grid():
    xs = []
    for e in (1e-45, 1e-38, 1e-30, 1e-20, 1e-17, 1e-13, 1e-10, 1e-8, 1e-6, 1e-3, 0.1, 0.5, 0.9, 1.0, 2.0, 10.0, 100.0):
        xs.append(e)
    return xs


def run(ctx=None) -> core.Report:
    import torch, mpmath
    import fggs.semirings as S
    mpmath.mp.dps = 60
    rep = core.Report(property_id="C08", level="other")
    fails, cases, samples = [], 0, []
    for dt, rtol in ((torch.float32, 2e-5), (torch.float64, 1e-11)):
        real, log = S.RealSemiring(dtype=dt), S.LogSemiring(dtype=dt)
        for e in _grid():
            # Real: x = 1 - e (just below 1), x = e ;  star(x) = 1/(1-x)
            for x in (1.0 - e, e):
                xt = torch.tensor(x, dtype=dt)
                xv = mpmath.mpf(float(xt.item()))
                want = mpmath.inf if xv >= 1 else 1 / (1 - xv)
                got = float(real.star(xt).item())
                cases += 1
                if not _close(got, want, rtol):
                    fails.append(("RealSemiring.star", str(dt), float(xt.item()), got, float(want)))
            # Log: x = -e (log-weight just below 0), x = log(e) ;  star(x) = -log(1 - exp(x))
            for x in (-e, math.log(e)):
                xt = torch.tensor(x, dtype=dt)
                xv = mpmath.mpf(float(xt.item()))
                want = mpmath.inf if xv >= 0 else -mpmath.log(-mpmath.expm1(xv))
                got = float(log.star(xt).item())
                cases += 1
                if len(samples) < 3: samples.append({"semiring": "Log", "dtype": str(dt), "x": float(xt.item()), "star": got})
                if not _close(got, want, rtol):
                    fails.append(("LogSemiring.star", str(dt), float(xt.item()), got, float(want)))
    seen = set()
    for name, dt, x, got, want in fails:
        key = f"{name}:{dt}"
        if key in seen: continue
        seen.add(key)
        rep.failures.append(Failure(obligation=f"{name}.ieee_accuracy", what=f"{name}({x!r}) in {dt} = {got!r}, exact value {want!r}",
                                    replay={"module": "vf.semvc.floatgrid", "func": "replay_case", "case": {"name": name, "dtype": dt, "x": x}},
                                    detail=f"observed {got!r} expected {want!r}", key=f"star-ieee:{name}:{dt}"))
    rep.bounded.append(Bounded(function="RealSemiring.star / LogSemiring.star in IEEE arithmetic",
                               bound="x = 1-e, e (Real) and x = -e, log e (Log) for e in {1e-45 .. 100} (17 values) x {float32, float64}; "
                                     "reference: mpmath with 60 digits on the float actually passed; rtol 2e-5 / 1e-11, atol 1e-37 / 1e-300",
                               cases=cases, distinct_nontrivial=cases, rule="fixed grid; every case is distinct; non-trivial: all",
                               samples=samples, exhaustive=True))
    return rep


def _close(got, want, rtol):
    import mpmath
    if want == mpmath.inf: return got == math.inf
    if got != got or got in (math.inf, -math.inf): return False
    w = float(want)
    atol = 1e-37 if rtol > 1e-8 else 1e-300        # below the normal range of the dtype only absolute accuracy is meaningful
    return abs(got - w) <= rtol * abs(w) + atol


def replay_case(case) -> bool:
    import torch, mpmath
    import fggs.semirings as S
    mpmath.mp.dps = 60
    dt = torch.float32 if "32" in case["dtype"] else torch.float64
    xt = torch.tensor(case["x"], dtype=dt)
    xv = mpmath.mpf(float(xt.item()))
    if case["name"].startswith("Real"):
        got = float(S.RealSemiring(dtype=dt).star(xt).item()); want = mpmath.inf if xv >= 1 else 1 / (1 - xv); rtol = 2e-5 if dt == torch.float32 else 1e-11
    else:
        got = float(S.LogSemiring(dtype=dt).star(xt).item()); want = mpmath.inf if xv >= 0 else -mpmath.log(-mpmath.expm1(xv)); rtol = 2e-5 if dt == torch.float32 else 1e-11
    print(f"{case['name']}({case['x']!r}) in {dt}: observed {got!r}, exact {float(want)!r}")
    return not _close(got, want, rtol)
