"""./check driver: runs one property's check, writes evidence, prints verdict lines.

exit 0  property held on everything explored (KNOWN-FINDING lines allowed)
exit 1  VIOLATION property=<id> replay=<path> [no-failing-input-found]
exit 3  CHECKER-ERROR (engine inconsistency; never a violation)
"""
from __future__ import annotations
import argparse, importlib, json, os, sys, time, traceback

from vf import core
from vf.core import (Ctx, Report, Failure, CheckerError, PROVED, REFUTED, FAILED_NO_INPUT, UNDECIDED)


def load_baseline():
    p = os.path.join(core.VERIF, "baseline_obligations.json")
    if not os.path.exists(p):
        return {}
    with open(p) as f:
        return json.load(f)


def run_property(pid: str, tier: str, seed: int) -> int:
    t0 = time.time()
    ctx = Ctx(property_id=pid, tier=tier, seed=seed, jobs=int(os.environ.get("VERIF_JOBS", "16")))
    mod = importlib.import_module(f"props.{pid.lower()}")
    rep: Report = mod.run(ctx)
    known = core.load_known_findings()
    baseline = {} if os.environ.get("VERIF_NO_BASELINE") == "1" else load_baseline().get(pid, {})

    # ---- vacuity guards ----------------------------------------------------
    names = [o.name for o in rep.obligations]
    if len(set(names)) != len(names):
        dup = sorted({n for n in names if names.count(n) > 1})
        raise CheckerError(f"duplicate obligation names: {dup[:5]}")
    if not rep.obligations and not rep.bounded:
        raise CheckerError("zero obligations and zero bounded contracts generated")
    base_names = set(baseline.get("obligations", []))
    # a function that left the supported subset has one `<function>.in_subset` obligation (undecided) instead of
    # its VCs: its baseline obligations are then not "missing" -- the property falls back to the bounded stand-in
    left = [n[:-len("in_subset")] for n in names if n.endswith(".in_subset")]
    # call-site precondition obligations (`<f>.call[<callee>].precondition`) exist only while the call does: an
    # edit that removes the call removes the obligation, and the caller's own postconditions decide
    missing = sorted(n for n in base_names - set(names)
                     if not any(n.startswith(pfx) for pfx in left) and ".call[" not in n)
    if left:
        rep.extra["functions_outside_the_supported_subset"] = [p.rstrip(".") for p in left]
        # on the very tree the baseline was taken from, a function that was inside the subset then and is
        # outside now means the *engine* regressed: a checker error, not a silent fall-back to the stand-in
        was_in = [p for p in left if any(n.startswith(p) for n in base_names)]
        if was_in and load_baseline().get("_source") == core.source_digest() and os.environ.get("VERIF_NO_BASELINE") != "1":
            raise CheckerError(f"the library is unchanged but {was_in[0].rstrip('.')} left the supported subset "
                               f"(engine regression): {[o.detail for o in rep.obligations if o.name.endswith('.in_subset')][:1]}")
    if missing and tier in baseline.get("tiers", ["quick", "thorough"]):
        # On the tree the baseline was taken from, an obligation that is not generated again means the machinery
        # regressed: checker error.  On an EDITED library (source digest differs) the edit may have removed the loop /
        # call / clause an obligation was attached to: those obligations are recorded as not regenerated (the level of
        # this run drops accordingly) and the remaining obligations plus the bounded stand-in decide.
        if load_baseline().get("_source") == core.source_digest():
            raise CheckerError(f"{len(missing)} baseline obligation(s) were not generated, e.g. {missing[:3]}")
        rep.extra["baseline_obligations_not_regenerated_on_the_edited_tree"] = missing[:50]
    for b in rep.bounded:
        if b.cases == 0:
            raise CheckerError(f"bounded contract {b.function} ran zero cases")

    # ---- an obligation that was discharged on the pinned tree and now comes back `unknown` ------
    # (not: "the function left the supported subset") is a failed obligation without an input
    base_proved = set(baseline.get("proved", []))
    for o in rep.obligations:
        if (o.status == UNDECIDED and o.name in base_proved
                and not o.detail.startswith("outside the")):
            o.status = FAILED_NO_INPUT
            o.detail = "discharged on the baseline tree, not any more: " + o.detail

    # ---- failures from obligations -----------------------------------------
    have = {f.obligation for f in rep.failures}
    for o in rep.obligations:
        if o.status in (REFUTED, FAILED_NO_INPUT) and o.name not in have:
            rep.failures.append(Failure(
                obligation=o.name,
                what=f"obligation {o.name} of {o.function} not discharged ({o.status})",
                replay={"module": "vf.driver", "func": "replay_obligation",
                        "case": {"property": pid, "obligation": o.name}},
                detail=o.detail, no_input=(o.status == FAILED_NO_INPUT)))

    # ---- verdict -------------------------------------------------------------
    lines, known_hits, violations = [], [], 0
    seen_known = set()
    for i, f in enumerate(rep.failures):
        k = core.match_known(pid, f, known)
        if k is not None:
            tag = k.get("id", k.get("match", f.obligation))
            if tag not in seen_known:
                seen_known.add(tag)
                lines.append(f"KNOWN-FINDING: property={pid} {k.get('what', f.what)}")
                known_hits.append(tag)
            continue
        path = core.write_replay(pid, f, i)
        violations += 1
        if violations <= 25:
            lines.append(f"VIOLATION property={pid} replay={path}" +
                         (" no-failing-input-found" if f.no_input or f.replay is None else ""))
            print(f"  # {f.obligation}: {f.what}", file=sys.stderr)
    wall = time.time() - t0
    path = core.write_evidence(ctx, rep, wall, violations, known_hits)
    try:
        core.validate_evidence(path)
    except Exception as e:  # schema problems are checker errors, not violations
        raise CheckerError(f"evidence does not validate: {e}")
    for l in lines:
        print(l)
    n_ob = len(rep.obligations); n_ok = sum(o.status == PROVED for o in rep.obligations)
    und = [o.name for o in rep.obligations if o.status == UNDECIDED]
    print(f"# {pid} tier={tier} seed={seed}: obligations {n_ok}/{n_ob} discharged"
          f"{' (undecided: ' + ', '.join(und[:4]) + ')' if und else ''}; "
          f"bounded contracts {len(rep.bounded)} / {sum(b.cases for b in rep.bounded)} cases; "
          f"known findings {len(known_hits)}; violations {violations}; {wall:.1f}s", file=sys.stderr)
    return 1 if violations else 0


def replay_obligation(case) -> bool:
    """Re-run the property's proof obligations; True iff the named one still fails."""
    pid = case["property"]
    mod = importlib.import_module(f"props.{pid.lower()}")
    ctx = Ctx(property_id=pid, tier="quick", seed=0)
    only = getattr(mod, "run_obligations", None)
    rep = only(ctx) if only else mod.run(ctx)
    for o in rep.obligations:
        if o.name == case["obligation"]:
            print(f"obligation {o.name}: {o.status}\n{o.detail}")
            return o.status != PROVED
    print("obligation not generated any more")
    return True


def run_replay(path: str) -> int:
    with open(path) as f:
        r = json.load(f)
    print(f"replaying {r['obligation']}: {r['what']}")
    rp = r.get("replay")
    if not rp:
        print("no concrete input recorded (no-failing-input-found); solver output:\n" + r.get("detail", ""))
        return 1
    mod = importlib.import_module(rp["module"])
    reproduced = getattr(mod, rp["func"])(rp["case"])
    print("REPRODUCED" if reproduced else "not reproduced")
    return 1 if reproduced else 0


def main(argv=None):
    ap = argparse.ArgumentParser()
    ap.add_argument("property", nargs="?")
    ap.add_argument("--tier", default=os.environ.get("VERIF_TIER", "quick"))
    ap.add_argument("--replay")
    ap.add_argument("--seed", type=int, default=int(os.environ.get("VERIF_SEED", "0") or 0))
    a = ap.parse_args(argv)
    if a.tier not in ("quick", "thorough"):
        a.tier = "quick"
    try:
        if a.replay:
            return run_replay(a.replay)
        if not a.property:
            ap.error("property id required")
        return run_property(a.property.upper(), a.tier, a.seed)
    except CheckerError as e:
        print(f"CHECKER-ERROR {e}")
        return 3
    except Exception:
        traceback.print_exc()
        print("CHECKER-ERROR unexpected exception in the checker (see traceback)")
        return 3


if __name__ == "__main__":
    sys.exit(main())
