"""Shared result types, evidence writer, known-findings matcher and replay files.

Every property module props/cXX.py exposes

    run(ctx: Ctx) -> Report

and fills the Report with
  * Obligation records   -- machine-checked proof obligations (pyvc / semvc / own)
  * Bounded records      -- bounded stand-ins (never counted as proved)
  * Failure records      -- a violated obligation or a failing bounded case, with a replay recipe

The driver (vf/driver.py) turns a Report into evidence/<id>.json, replay files,
KNOWN-FINDING / VIOLATION lines and the exit code.
"""
from __future__ import annotations
import dataclasses, json, os, time, hashlib, random
from dataclasses import dataclass, field
from typing import Any, Callable, Dict, List, Optional

VERIF = os.path.dirname(os.path.dirname(os.path.abspath(__file__)))
REPO = os.environ.get("FGGS_REPO", "/repo")

PROVED = "proved"
REFUTED = "refuted"                  # concrete failing input replayed on the real code
FAILED_NO_INPUT = "failed-no-input"  # solver does not discharge it, no concrete input found
UNDECIDED = "undecided"              # resource limit / function left the supported subset
STATUSES = (PROVED, REFUTED, FAILED_NO_INPUT, UNDECIDED)


def source_digest() -> Dict[str, str]:
    """sha256 of every module of the library under verification (the tree the baseline was taken on)."""
    import glob, hashlib
    out = {}
    for f in sorted(glob.glob(os.path.join(REPO, "fggs", "*.py"))):
        with open(f, "rb") as fh:
            out[os.path.basename(f)] = hashlib.sha256(fh.read()).hexdigest()
    return out


class CheckerError(Exception):
    """Engine inconsistency: never reported as a violation (exit 3)."""


@dataclass
class Obligation:
    name: str                 # stable, human-readable: "<function>.<clause>"
    function: str             # qualified name of the real function it is generated from
    kind: str                 # vc | scalar | frame | lemma
    status: str
    backend: str = ""         # z3 | cvc5 | own
    time_s: float = 0.0
    where: str = ""           # file:line of the function in /repo
    detail: str = ""          # solver output / counter-model / reason
    rlimit: int = 0

    def to_json(self):
        d = dataclasses.asdict(self)
        if len(d["detail"]) > 600:
            d["detail"] = d["detail"][:600] + "…"
        return d


@dataclass
class Bounded:
    function: str             # contract / function(s) exercised
    bound: str                # the stated bound
    cases: int = 0
    distinct_nontrivial: int = 0
    rule: str = ""
    samples: List[Any] = field(default_factory=list)
    exhaustive: bool = False
    extra: Dict[str, Any] = field(default_factory=dict)

    def to_json(self):
        d = dataclasses.asdict(self)
        d["samples"] = d["samples"][:3]
        return d


@dataclass
class Failure:
    obligation: str           # obligation / bounded-contract clause that failed
    what: str                 # one line, normalised: matched against known_findings.json
    replay: Optional[Dict[str, Any]] = None   # {"module": "props.c10", "func": "replay_case", "case": {...}}
    detail: str = ""
    no_input: bool = False    # failed obligation without a concrete failing input
    key: str = ""             # normalised identity for known-finding matching (defaults to `what`)


@dataclass
class Report:
    property_id: str
    level: str
    obligations: List[Obligation] = field(default_factory=list)
    bounded: List[Bounded] = field(default_factory=list)
    failures: List[Failure] = field(default_factory=list)
    assumptions: List[str] = field(default_factory=list)
    trusted_base: List[str] = field(default_factory=list)
    functions_under_contract: List[str] = field(default_factory=list)
    extraction: List[str] = field(default_factory=list)
    explanation: str = ""
    extra: Dict[str, Any] = field(default_factory=dict)
    checker_cmd: str = ""

    def add(self, other: "Report"):
        self.obligations += other.obligations
        self.bounded += other.bounded
        self.failures += other.failures
        for a in other.assumptions:
            if a not in self.assumptions: self.assumptions.append(a)
        for a in other.trusted_base:
            if a not in self.trusted_base: self.trusted_base.append(a)
        for a in other.functions_under_contract:
            if a not in self.functions_under_contract: self.functions_under_contract.append(a)
        for a in other.extraction:
            if a not in self.extraction: self.extraction.append(a)
        self.extra.update(other.extra)


@dataclass
class Ctx:
    property_id: str
    tier: str = "quick"
    seed: int = 0
    jobs: int = 16

    @property
    def thorough(self):
        return self.tier == "thorough"

    def rng(self, salt: str = "") -> random.Random:
        h = hashlib.sha256(f"{self.seed}:{self.property_id}:{salt}".encode()).hexdigest()
        return random.Random(int(h[:16], 16))


GLOBAL_ASSUMPTIONS = [
    "CPython 3.12 semantics for the supported subset; integers unbounded; no threads; no monkey-patching of fggs",
    "termination is not proved (partial correctness) except for `for` loops over finite sequences",
    "torch and torch_semiring_einsum are external and trusted (IEEE special-value rules, view aliasing, reductions are folds)",
    "floating point is treated as real arithmetic (with IEEE +-inf/NaN special values) in every proof obligation; bounded checks run real floats with stated tolerances",
    "MemoryError, RecursionError and KeyboardInterrupt are ignored",
]


def load_known_findings() -> Dict[str, Any]:
    p = os.path.join(VERIF, "known_findings.json")
    if not os.path.exists(p):
        return {"findings": [], "fixed": []}
    with open(p) as f:
        return json.load(f)


def match_known(pid: str, fail: Failure, known) -> Optional[Dict[str, Any]]:
    """A failure is a known finding iff an entry for this property matches its obligation (when given)
    and its normalised failing input: `match` (substring) or `regex` on key / what."""
    import re
    key = fail.key or fail.what
    for k in known.get("findings", []):
        if pid not in (k.get("property"), *k.get("also", [])):
            continue
        if k.get("obligation") and not re.search(k["obligation"], fail.obligation):
            continue
        m, rx = k.get("match"), k.get("regex")
        if m is not None and (m in key or m in fail.what):
            return k
        if rx is not None and (re.search(rx, key) or re.search(rx, fail.what)):
            return k
        if m is None and rx is None:
            return k
    return None


def write_replay(pid: str, fail: Failure, idx: int) -> str:
    d = os.path.join(os.environ.get("VERIF_REPLAY_DIR") or os.path.join(VERIF, "replays"), pid)
    os.makedirs(d, exist_ok=True)
    safe = "".join(c if c.isalnum() or c in "._-" else "_" for c in fail.obligation)[:80]
    path = os.path.join(d, f"{safe}.{idx}.json")
    with open(path, "w") as f:
        json.dump({"property": pid, "obligation": fail.obligation, "what": fail.what,
                   "no_failing_input_found": fail.no_input,
                   "replay": fail.replay, "detail": fail.detail}, f, indent=1, default=str)
    return path


def write_evidence(ctx: Ctx, rep: Report, wall: float, violations: int, known_hits: List[str]) -> str:
    obs = rep.obligations
    n_ob = len(obs)
    n_dis = sum(1 for o in obs if o.status == PROVED)
    cases = sum(b.cases for b in rep.bounded)
    dnt = sum(b.distinct_nontrivial for b in rep.bounded)
    samples: List[Any] = []
    for o in obs[:3]:
        samples.append({"obligation": o.name, "function": o.function, "status": o.status, "backend": o.backend})
    for b in rep.bounded:
        for s in b.samples[:2]:
            samples.append({"bounded": b.function, "case": s})
    by_backend: Dict[str, int] = {}
    for o in obs:
        if o.status == PROVED:
            by_backend[o.backend] = by_backend.get(o.backend, 0) + 1
    cov: Dict[str, Any] = {
        "obligations": n_ob,
        "discharged": n_dis,
        "discharged_by_backend": by_backend,
        "solver_time_s": round(sum(o.time_s for o in obs), 3),
        "checker_cmd": rep.checker_cmd or f"./check {ctx.property_id} --tier {ctx.tier}",
        "trusted_base": rep.trusted_base,
        "functions_under_contract": rep.functions_under_contract,
        "extraction": rep.extraction,
        "obligation_records": [o.to_json() for o in obs],
        "bounded_contracts": [b.to_json() for b in rep.bounded],
        "evaluations": cases,
        "distinct_nontrivial": dnt,
        "rule": "; ".join(f"{b.function}: {b.rule}" for b in rep.bounded)[:4000],
        "samples": samples[:12] or [{"note": "no cases"}],
        "exhaustive": bool(rep.bounded) and all(b.exhaustive for b in rep.bounded),
        "explanation": rep.explanation,
        "known_findings_matched": known_hits,
    }
    cov.update(rep.extra)
    ev = {
        "property_id": ctx.property_id,
        "tier": ctx.tier,
        "seed": ctx.seed,
        "level": rep.level,
        "coverage": cov,
        "assumptions": GLOBAL_ASSUMPTIONS + rep.assumptions,
        "wall_s": round(wall, 2),
        "violations": violations,
    }
    d = os.environ.get("VERIF_EVIDENCE_DIR") or os.path.join(VERIF, "evidence")    # (overridden only by tools/ when a patch is tried)
    os.makedirs(d, exist_ok=True)
    path = os.path.join(d, f"{ctx.property_id}.json")
    tmp = path + ".tmp"
    with open(tmp, "w") as f:
        json.dump(ev, f, indent=1, default=str)
    os.replace(tmp, path)
    return path


def validate_evidence(path: str):
    import jsonschema
    with open("/root/.vp/EVIDENCE.schema.json") as f:
        schema = json.load(f)
    with open(path) as f:
        ev = json.load(f)
    jsonschema.validate(ev, schema)
