"""Total (non-raising) operations on symbolic values, shared by the executor and the spec evaluator."""
from __future__ import annotations
import z3
from vf.pyvc import sorts as S
from vf.pyvc.sorts import *
from vf.pyvc.state import *


def B(t) -> SPrim: return SPrim("bool", t if z3.is_expr(t) else z3.BoolVal(bool(t)))
def I(t) -> SPrim: return SPrim("int", t if z3.is_expr(t) else z3.IntVal(int(t)))


def truth(st: St, v: SV):
    if isinstance(v, SNone): return z3.BoolVal(False)
    if isinstance(v, SPrim):
        if v.ty == "bool": return v.t
        if v.ty == "int": return v.t != 0
        if v.ty == "Id": return z3.Not(S.Id.is_NoneId(v.t))
        if v.ty in ("NodeLabel", "EdgeLabel", "Node", "Edge", "Domain", "Factor"): return z3.BoolVal(True)
    if isinstance(v, SSeq): return v.n > 0
    if isinstance(v, SRef):
        c = st.cell(v.ref)
        if isinstance(c, ListCell): return c.n > 0
        if isinstance(c, ObjCell): return z3.BoolVal(True)
        if isinstance(c, DictCell):
            k = z3.Const("k!t", S.sort_of(c.kty)); return z3.Exists([k], c.dom[k])
        if isinstance(c, SetCell):
            k = z3.Const("k!t", S.sort_of(c.elem)); return z3.Exists([k], c.mem[k])
    if isinstance(v, SOpaqueObj):          # an unmodelled object in a boolean context: an unknown, but fixed, truth value
        return S.obj_fn("truth", S.Obj, z3.BoolSort())(v.ident())
    raise Unsupported(f"truth value of {v}")


def as_seq(st: St, v: SV) -> SSeq:
    """View a tuple / list as an immutable sequence value."""
    if isinstance(v, SSeq): return v
    if isinstance(v, SRef):
        c = st.cell(v.ref)
        if isinstance(c, ListCell): return SSeq(c.elem, c.n, c.arr, setview=c.setview)
    raise Unsupported(f"not a sequence: {v}")


def key_term(kty, k: SV):
    """z3 term of a key for a container with key type kty, or None if the key can never be in it
    (Python compares unequal across these types; hashing is assumed consistent with ==)."""
    if isinstance(k, SNone):
        return S.Id.NoneId if kty == "Id" else None
    if isinstance(k, SPrim):
        if k.ty == kty: return k.t
        if kty == "PyVal" and k.ty == "str": return S.pv_of_str(k.t)
        if kty == "Id":
            if k.ty == "str": return S.Id.StrId(k.t)
            if k.ty == "int": return S.Id.IntId(k.t)
        return None
    if isinstance(k, STuple) and isinstance(k.ty, tuple):
        try:
            if S.sort_of(k.ty) == S.sort_of(kty): return term_of(k)
        except Exception:
            pass
        return None
    if isinstance(k, SClosure) and k.kind == "emptyset" and isinstance(kty, tuple) and kty[0] == "set":
        return z3.K(S.sort_of(kty[1]), z3.BoolVal(False))       # frozenset() / set() as a key
    if isinstance(k, SSetV):                       # a frozenset as key / element
        try:
            if S.sort_of(("set", k.elem)) == S.sort_of(kty): return k.mem
        except Exception:
            pass
        return None
    if isinstance(k, SSeq):
        try:
            if S.sort_of(("seq", k.elem)) == S.sort_of(kty): return k.packed()
        except Exception:
            pass
        return None
    return None


def contains(st: St, c: SV, x: SV):
    """x in c  as a z3 Bool."""
    if isinstance(c, SOpaqueObj):
        # membership in an unmodelled container: an uninterpreted predicate of its identity and the element
        if isinstance(x, SPrim):
            return S.obj_fn("member", S.Obj, x.t.sort(), z3.BoolSort())(c.ident(), x.t)
        if isinstance(x, SOpaqueObj):
            return S.obj_fn("member", S.Obj, S.Obj, z3.BoolSort())(c.ident(), x.ident())
        return S.fresh("member", z3.BoolSort())
    if isinstance(c, SDictView):
        cell = st.cell(c.ref)
        if c.kind == "keys":
            return contains(st, SRef(("dict", cell.kty, cell.vty), c.ref), x)
        if c.kind == "values":
            xt = key_term(cell.vty, x)
            if xt is None: return z3.BoolVal(False)
            return vals_mem(cell.kty, cell.vty, cell.dom, cell.val)[xt]
    if isinstance(c, SRef):
        cell = st.cell(c.ref)
        if isinstance(cell, DictCell):
            if cell.kty == "str" and isinstance(x, SPrim) and x.ty == "Id":
                return z3.And(S.Id.is_StrId(x.t), cell.dom[S.Id.s(x.t)])
            kt = key_term(cell.kty, x)
            if kt is None: return z3.BoolVal(False)
            return cell.dom[kt]
        if isinstance(cell, SetCell):
            kt = key_term(cell.elem, x)
            return z3.BoolVal(False) if kt is None else cell.mem[kt]
        if isinstance(cell, ListCell):
            return contains(st, SSeq(cell.elem, cell.n, cell.arr, setview=cell.setview), x)
    if isinstance(c, SDictV):
        if c.kty == "str" and isinstance(x, SPrim) and x.ty == "Id":
            return z3.And(S.Id.is_StrId(x.t), c.dom[S.Id.s(x.t)])
        kt = key_term(c.kty, x)
        return z3.BoolVal(False) if kt is None else c.dom[kt]
    if isinstance(c, SSetV):
        kt = key_term(c.elem, x)
        return z3.BoolVal(False) if kt is None else c.mem[kt]
    if isinstance(c, SSubSet):
        cell = st.cell(c.ref)
        kt = key_term(c.elem, x)
        return z3.BoolVal(False) if kt is None else cell.val[c.key][kt]
    if isinstance(c, SSeq):
        xt = key_term(c.elem, x)
        if xt is None: return z3.BoolVal(False)
        if c.setview is not None: return c.setview[xt]
        i = S.fresh("i!in", z3.IntSort())
        return z3.Exists([i], z3.And(i >= 0, i < c.n, c.arr[i] == xt))
    if type(c).__name__ == "SIter" and c.kind == "range" and len(c.args) == 1:
        if isinstance(x, SPrim) and x.ty == "int":
            return z3.And(x.t >= 0, x.t < c.args[0].t)
    raise Unsupported(f"`in` on {c}")


def equal(st: St, a: SV, b: SV):
    """a == b as z3 Bool (Python semantics for the modelled types; cross-type comparisons are False)."""
    if isinstance(a, SNone) and isinstance(b, SNone): return z3.BoolVal(True)
    if isinstance(a, (SOpaqueObj, SOpaque)) or isinstance(b, (SOpaqueObj, SOpaque)):
        # == involving an unmodelled object: its __eq__ is unknown
        if isinstance(a, SOpaqueObj) and isinstance(b, SOpaqueObj):
            return S.obj_fn("eq", S.Obj, S.Obj, z3.BoolSort())(a.ident(), b.ident())
        if isinstance(a, SNone) or isinstance(b, SNone):
            o = b if isinstance(a, SNone) else a
            return S.obj_fn("is_none", S.Obj, z3.BoolSort())(o.ident()) if isinstance(o, SOpaqueObj) else S.fresh("eq", z3.BoolSort())
        return S.fresh("eq", z3.BoolSort())
    if isinstance(a, SNone): a, b = b, a
    if isinstance(b, SNone):
        if isinstance(a, SPrim) and a.ty == "Id": return S.Id.is_NoneId(a.t)
        return z3.BoolVal(False)
    if isinstance(a, SPrim) and isinstance(b, SPrim):
        if a.ty == b.ty: return a.t == b.t
        if {a.ty, b.ty} == {"PyVal", "str"}:
            pv, st_ = (a, b) if a.ty == "PyVal" else (b, a)
            return pv.t == S.pv_of_str(st_.t)
        if {a.ty, b.ty} == {"Id", "str"}:
            i, s = (a, b) if a.ty == "Id" else (b, a)
            return z3.And(S.Id.is_StrId(i.t), S.Id.s(i.t) == s.t)
        if {a.ty, b.ty} == {"Id", "int"}:
            i, s = (a, b) if a.ty == "Id" else (b, a)
            return z3.And(S.Id.is_IntId(i.t), S.Id.i(i.t) == s.t)
        if {a.ty, b.ty} == {"int", "bool"}:
            ai = a.t if a.ty == "int" else z3.If(a.t, 1, 0)
            bi = b.t if b.ty == "int" else z3.If(b.t, 1, 0)
            return ai == bi
        return z3.BoolVal(False)
    if isinstance(a, STuple) and isinstance(b, STuple):
        if len(a.items) != len(b.items): return z3.BoolVal(False)
        if isinstance(a.ty, tuple) and isinstance(b.ty, tuple):
            try:
                if S.sort_of(a.ty) == S.sort_of(b.ty): return term_of(a) == term_of(b)
            except Exception:
                pass
        return z3.And(*[equal(st, x, y) for x, y in zip(a.items, b.items)]) if a.items else z3.BoolVal(True)
    if getattr(a, "elem", 1) is None or getattr(b, "elem", 1) is None:     # () / [] of unknown type
        o = b if getattr(a, "elem", 1) is None else a
        try:
            return as_seq(st, o).n == 0
        except Unsupported:
            return z3.BoolVal(False)
    if isinstance(a, SDictV) or isinstance(b, SDictV):
        da, db = as_dictv(st, a), as_dictv(st, b)
        if da is None or db is None: return z3.BoolVal(False)
        return dict_eq(da, db)
    if isinstance(a, (SSeq,)) or isinstance(b, (SSeq,)):
        try:
            sa, sb = as_seq(st, a), as_seq(st, b)
        except Unsupported:
            return z3.BoolVal(False)
        # NB: Python's tuple != list; both sides here are tuples unless a list cell is involved
        if isinstance(a, SRef) != isinstance(b, SRef): return z3.BoolVal(False)
        if S.sort_of(sa.elem) != S.sort_of(sb.elem): return z3.And(sa.n == 0, sb.n == 0)
        return z3.And(sa.n == sb.n, sa.arr == sb.arr)
    if isinstance(a, SSetV) and isinstance(b, SSetV):
        return set_eq(a.mem, b.mem)
    if isinstance(a, SRef) and isinstance(b, SRef):
        ca, cb = st.cell(a.ref), st.cell(b.ref)
        if isinstance(ca, DictCell) and isinstance(cb, DictCell):
            return dict_eq(ca, cb)
        if isinstance(ca, ListCell) and isinstance(cb, ListCell):
            return z3.And(ca.n == cb.n, ca.arr == cb.arr)
        if isinstance(ca, SetCell) and isinstance(cb, SetCell):
            return set_eq(ca.mem, cb.mem)
        if isinstance(ca, ObjCell) and isinstance(cb, ObjCell):
            raise Unsupported("object == object must go through __eq__")
    return z3.BoolVal(False)


def _is_lambda(t):
    return z3.is_quantifier(t) and t.is_lambda()


def set_eq(ma, mb):
    """Equality of two membership arrays.  When one side is a comprehension (a lambda) the equality is
    stated pointwise: a negated hypothesis then skolemises to a witness element, which the solvers do
    not find from the extensionality axiom of lambda terms."""
    if ma.sort() != mb.sort(): return z3.BoolVal(False)
    if _is_lambda(ma) or _is_lambda(mb):
        x = S.fresh("x!se", ma.sort().domain())
        return z3.ForAll([x], ma[x] == mb[x])
    return ma == mb


_keyof = {}


def vals_mem(kty, vty, dom, val):
    """Membership array of the set of values of the dict (dom, val), without an existential:
         x in vals  :=  dom[ko(x)] and val[ko(x)] == x
    where ko is a choice function of this dict (a fresh function symbol per (dom, val) term pair) with the axiom
         forall k. dom[k] => dom[ko(val[k])] and val[ko(val[k])] == val[k]
    (satisfiable for every dict: pick ko(x) = some key that maps to x).  Ground witnesses instead of nested
    quantifiers keep the VCs inside what E-matching decides reliably."""
    ks, vs = S.sort_of(kty), S.sort_of(vty)
    key = (dom.get_id(), val.get_id())
    if key not in _keyof:
        name = f"keyof!{len(_keyof)}"
        F = z3.Function(name, vs, ks)
        k = z3.Const("k!ko", ks)
        ax = z3.ForAll([k], z3.Implies(dom[k], z3.And(dom[F(val[k])], val[F(val[k])] == val[k])),
                       patterns=[val[k], dom[k]])
        S.LIFTED[name] = ax
        _keyof[key] = (F, dom, val)       # keep the terms alive (ids are only unique among live ASTs)
    F = _keyof[key][0]
    x = z3.Const("x!v", vs)
    return z3.Lambda([x], z3.And(dom[F(x)], val[F(x)] == x))


def as_dictv(st, v):
    if isinstance(v, SDictV): return v
    if isinstance(v, SRef) and isinstance(st.cell(v.ref), DictCell):
        c = st.cell(v.ref); return SDictV(c.kty, c.vty, c.dom, c.val)
    return None


def dict_eq(ca, cb):
    if S.sort_of(ca.kty) != S.sort_of(cb.kty) or S.sort_of(ca.vty) != S.sort_of(cb.vty):
        k = z3.Const("k!de", S.sort_of(ca.kty)); k2 = z3.Const("k!de2", S.sort_of(cb.kty))
        return z3.And(z3.Not(z3.Exists([k], ca.dom[k])), z3.Not(z3.Exists([k2], cb.dom[k2])))
    k = z3.Const("k!de", S.sort_of(ca.kty))
    return z3.And(ca.dom == cb.dom, z3.ForAll([k], z3.Implies(ca.dom[k], ca.val[k] == cb.val[k])))


def data_field(v: SPrim, name: str) -> SV:
    for fname, fty in S.DATA_FIELDS.get(v.ty, []):
        if fname == name:
            acc = getattr(S.DATA[v.ty], "f_" + name)
            if v.ty == "RhsV" and name == "ext": acc = S.RuleV.f_ext
            return S.wrap(S.parse_type(fty) if isinstance(fty, str) else fty, acc(v.t))
    raise KeyError(name)


def elem_inv_facts(st: St, sq: SSeq) -> St:
    """the intrinsic invariants of the element type hold of every element of a derived sequence"""
    j = z3.Int("j!ei")
    try:
        inner = value_inv(sq.elem, sq.arr[j])
    except Exception:
        inner = []
    if inner:
        st = st.fact(z3.ForAll([j], z3.Implies(z3.And(j >= 0, j < sq.n), z3.And(*inner))))
    return st


def seq_setview_facts(st: St, sq: SSeq) -> St:
    """A sequence that enumerates a set (sq.setview) without repetition of membership facts: every element is in
    the set, and every member of the set occurs at some position pos(x) (a fresh function)."""
    if getattr(sq, "setview", None) is None: return st
    es = S.sort_of(sq.elem)
    S._ctr[0] += 1
    pos = z3.Function(f"pos!{S._ctr[0]}", es, z3.IntSort())
    j = z3.Int("j!sv"); x = z3.Const("x!sv", es)
    def q(vs, body, pats):
        pats = [p for p in pats if not (z3.is_app(p) and p.num_args() > 0 and _is_lambda(p.arg(0)))]
        try:
            return z3.ForAll(vs, body, patterns=pats) if pats else z3.ForAll(vs, body)
        except z3.Z3Exception:
            return z3.ForAll(vs, body)
    elem_at = z3.simplify(sq.arr[j])
    st = st.fact(q([j], z3.Implies(z3.And(j >= 0, j < sq.n), sq.setview[elem_at]), [sq.arr[j]]))
    memb = S.beta(sq.setview[x])
    st = st.fact(q([x], z3.Implies(memb, z3.And(pos(x) >= 0, pos(x) < sq.n, sq.arr[pos(x)] == x)),
                   [pos(x), sq.setview[x]] + S._direct_apps(x, memb)[:2]))
    return st


def seq_map(src: SSeq, elem_ty, f) -> SSeq:
    """[f(x) for x in src] as a normalised lambda array; f maps a z3 term to a z3 term."""
    i = z3.Int("i!map")
    es = S.sort_of(elem_ty)
    arr = z3.Lambda([i], z3.If(z3.And(i >= 0, i < src.n), f(src.arr[i]), S.dflt(es)))
    return SSeq(elem_ty, src.n, arr)


def seq_concat(a: SSeq, b: SSeq) -> SSeq:
    i = z3.Int("i!cat")
    es = S.sort_of(a.elem)
    arr = z3.Lambda([i], z3.If(z3.And(i >= 0, i < a.n), a.arr[i],
                               z3.If(z3.And(i >= a.n, i < a.n + b.n), b.arr[i - a.n], S.dflt(es))))
    sv = None
    if getattr(a, "setview", None) is not None and getattr(b, "setview", None) is not None:
        x = z3.Const("x!cat", es)
        sv = z3.Lambda([x], z3.Or(a.setview[x], b.setview[x]))
    return SSeq(a.elem, a.n + b.n, arr, setview=sv)


def seq_append(a: SSeq, x) -> SSeq:
    return SSeq(a.elem, a.n + 1, z3.Store(a.arr, a.n, x))


def empty_seq(elem_ty) -> SSeq:
    es = S.sort_of(elem_ty)
    return SSeq(elem_ty, z3.IntVal(0), z3.K(z3.IntSort(), S.dflt(es)))


def dict_keyseq(st: St, cell: DictCell, name="ks"):
    """Ghost enumeration of the keys of a dict in iteration order: (St with facts, n, karr)."""
    ks = S.sort_of(cell.kty)
    n = S.fresh(name + ".n", z3.IntSort())
    karr = S.fresh(name + ".arr", z3.ArraySort(z3.IntSort(), ks))
    idx = z3.Function(f"{name}.idx!{S._ctr[0]}", ks, z3.IntSort())
    i, j = z3.Int("i!ks"), z3.Int("j!ks")
    k = z3.Const("k!ks", ks)
    st = st.fact(S.seq_norm(n, karr, ks))          # normalised: a plain array constant, usable in triggers
    st = st.fact(z3.ForAll([i], z3.Implies(z3.And(i >= 0, i < n), z3.And(cell.dom[karr[i]], idx(karr[i]) == i))))
    st = st.fact(z3.ForAll([k], z3.Implies(cell.dom[k], z3.And(idx(k) >= 0, idx(k) < n, karr[idx(k)] == k))))
    if isinstance(ks, z3.DatatypeSortRef) and ks.num_constructors() == 1 and ks.name().startswith("Tup<"):
        # keys that are tuples: each enumerated key IS the tuple of its components (eta; gives E-matching the constructor term)
        c = ks.constructor(0)
        comps = [ks.accessor(0, a)(karr[i]) for a in range(c.arity())]
        st = st.fact(z3.ForAll([i], z3.Implies(z3.And(i >= 0, i < n), karr[i] == c(*comps)), patterns=[karr[i]]))
    return st, n, karr


def set_keyseq(st: St, elem_ty, mem, name="ss"):
    cell = DictCell(elem_ty, "bool", mem, None)
    return dict_keyseq(st, cell, name)


_card = {}


def card(mem):
    """Cardinality of a finite set given by its membership array: an uninterpreted function with the
    facts the proofs need (>= 0; 0 iff empty).  Finiteness of Python sets is assumed."""
    srt = mem.sort()
    key = str(srt)
    if key not in _card:
        _card[key] = z3.Function(f"card<{key}>", srt, z3.IntSort())
    c = _card[key](mem)
    x = z3.Const("x!card", srt.domain())
    facts = [c >= 0, (c == 0) == z3.Not(z3.Exists([x], mem[x]))]
    # finite sets: a subset that is at least as large as its superset is the whole set (instances for the pairs of
    # sets whose sizes have been taken so far)
    seen = _card_seen.setdefault(key, [])
    for other in seen:
        if z3.eq(other, mem): continue
        co = _card[key](other)
        for a, ca, b, cb in ((mem, c, other, co), (other, co, mem, c)):
            facts.append(z3.Implies(z3.And(z3.ForAll([x], z3.Implies(a[x], b[x])), ca >= cb),
                                    z3.ForAll([x], z3.Implies(b[x], a[x]))))
    if all(not z3.eq(o, mem) for o in seen) and len(seen) < 6:
        seen.append(mem)
    return c, facts


_card_seen = {}
