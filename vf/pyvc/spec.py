"""Specification side: sidecar contracts (parsed, never executed) and the pure evaluator that
translates contract expressions -- ordinary Python expressions over the function's parameters,
the spec vocabulary below and user-defined spec functions -- into z3.

Spec vocabulary (inside contracts/*.py):
  old(e)                     e evaluated in the entry state
  result                     the returned value                     (ensures only)
  forall(lambda x: P, "T")   exists(lambda x: P, "T")               T a type name (Id, Node, int, ...)
  implies(a, b)  iff(a, b)
  keys(d)  vals(d)           the key / value set of a dict
  put(d, k, v)  drop(d, k)   functional dict update / removal
  with_(s, x)  without(s, x) functional set update
  append(s, x)               sequence extended by one element
  alive(i)                   ghost: an object with address i is alive (`id()` freshness)
  warned()                   ghost: warnings.warn was called
  len, in, ==, [], and/or/not, comparisons, comprehensions [f(x) for x in s], all(...), any(...)
  _i, _n, _it                loop invariants: ghost index, length and the traversed sequence
"""
from __future__ import annotations
import ast, os, z3
from typing import Any, Dict, List, Optional
from vf.pyvc import sorts as S
from vf.pyvc.sorts import *
from vf.pyvc.state import *
from vf.pyvc import ops
from vf.pyvc.ops import B, I
from vf.pyvc.schema import CLASS_FIELDS, RESOLVE_AS


class Contract:
    def __init__(self, qual):
        self.qual = qual
        self.sig: Dict[str, str] = {}
        self.returns: Optional[str] = None
        self.requires: Optional[ast.expr] = None
        self.ensures: Dict[str, ast.expr] = {}
        self.raises: Dict[str, ast.expr] = {}
        self.on_raise: Dict[str, ast.expr] = {}
        self.loops: Dict[int, ast.expr] = {}
        self.locals: Dict[str, str] = {}
        self.modifies: List[str] = []
        self.modular = False
        self.allocates = False
        self.lemmas: Dict[str, ast.expr] = {}
        self.properties: List[str] = []
        self.note = ""
        self.opaque_results: Dict[str, str] = {}
        self.opaque_calls: List[str] = []
        self.opaque_elems: Dict[str, str] = {}
        self.may_raise: List[str] = []
        self.assumed = False
        self.checks: Dict[str, ast.expr] = {}
        self.shards = 1
        self.captures: List[str] = []     # nested function: variables of the enclosing function it reads / writes
        self.nonlocals: List[str] = []    # ... those among them that it re-binds (`nonlocal x`): immutable values


class SpecFunc:
    def __init__(self, name, params, body):
        self.name, self.params, self.body = name, params, body


def _lam(node):
    return node.body if isinstance(node, ast.Lambda) else node


def load_contracts(paths) -> "SpecEnv":
    env = SpecEnv()
    for path in paths:
        tree = ast.parse(open(path).read(), path)
        for node in tree.body:
            if isinstance(node, ast.FunctionDef):
                rets = [s for s in node.body if isinstance(s, ast.Return)]
                if len(rets) != 1: raise ValueError(f"spec function {node.name} must be a single return")
                env.funcs[node.name] = SpecFunc(node.name, [a.arg for a in node.args.args], rets[0].value)
            elif isinstance(node, ast.ClassDef):
                qual = None
                for d in node.decorator_list:
                    if isinstance(d, ast.Call) and getattr(d.func, "id", "") == "contract":
                        qual = d.args[0].value
                if qual is None: continue
                c = Contract(qual)
                for it in node.body:
                    if not isinstance(it, ast.Assign): continue
                    name = it.targets[0].id
                    v = it.value
                    if name == "sig": c.sig = ast.literal_eval(v)
                    elif name == "returns": c.returns = ast.literal_eval(v)
                    elif name == "locals": c.locals = ast.literal_eval(v)
                    elif name == "modifies": c.modifies = ast.literal_eval(v)
                    elif name == "modular": c.modular = ast.literal_eval(v)
                    elif name == "allocates": c.allocates = ast.literal_eval(v)
                    elif name == "properties": c.properties = ast.literal_eval(v)
                    elif name == "opaque_results": c.opaque_results = ast.literal_eval(v)
                    elif name == "opaque_calls": c.opaque_calls = ast.literal_eval(v)
                    elif name == "opaque_elems": c.opaque_elems = ast.literal_eval(v)
                    elif name == "may_raise": c.may_raise = ast.literal_eval(v)
                    elif name == "assumed": c.assumed = ast.literal_eval(v)
                    elif name == "note": c.note = ast.literal_eval(v)
                    elif name == "shards": c.shards = ast.literal_eval(v)
                    elif name == "captures": c.captures = ast.literal_eval(v)
                    elif name == "nonlocals": c.nonlocals = ast.literal_eval(v)
                    elif name == "requires": c.requires = _lam(v)
                    elif name in ("ensures", "raises", "on_raise", "loops", "lemmas", "checks"):
                        if isinstance(v, ast.Dict):
                            d = {ast.literal_eval(k): _lam(x) for k, x in zip(v.keys, v.values)}
                        else:
                            d = {"post": _lam(v)}
                        setattr(c, name, d)
                if qual in env.contracts: raise ValueError(f"duplicate contract for {qual}")
                env.contracts[qual] = c
    return env


class SpecEnv:
    def __init__(self):
        self.contracts: Dict[str, Contract] = {}
        self.funcs: Dict[str, SpecFunc] = {}

    def modular_contract(self, qual):
        c = self.contracts.get(qual)
        return c if c is not None and c.modular else None

    def call_by_contract(self, ex, c: Contract, fn, args, kw, st: St, k):
        """Modular call: assert requires, fork per raises clause, havoc modifies, assume ensures."""
        env = ex.bind_params(fn, args, kw, st)
        for cap in c.captures:                      # a nested function sees the caller's (= the enclosing scope's) variables
            if cap not in st.env: raise Unsupported(f"captured variable {cap} is not bound at the call of {fn.name}")
            if cap not in env: env[cap] = st.env[cap]
        site = f"{ex.top_name}.call[{c.qual.split('fggs.', 1)[-1]}]"
        if c.requires is not None:
            pre = PureEval(ex, st, env).truth(c.requires)
            ex.vc(f"{site}.precondition", st, pre, "callee precondition at call site")
        conds = {exc: PureEval(ex, st, env).truth(e) for exc, e in c.raises.items()}
        for exc, cond in conds.items():
            cc = z3.simplify(cond)
            if z3.is_false(cc): continue
            st_r = st.assume(cond)
            if exc in c.on_raise or "*" in c.on_raise:
                # state after a raising call: havoc what may be modified, assume the exceptional postcondition
                st_r2 = self.havoc_modifies(ex, c, env, st_r)
                post = PureEval(ex, st_r2, env, old_st=st_r).truth(c.on_raise.get(exc, c.on_raise.get("*")))
                st_r = st_r2.assume(post)
            st_r.fr.on_raise(exc, st_r)
        st_n = st
        for cond in conds.values():
            st_n = st_n.assume(z3.Not(cond))
        st_h = self.havoc_modifies(ex, c, env, st_n)
        env2 = dict(env)
        if c.nonlocals:                              # re-bound variables of the enclosing scope: fresh values, old() = before
            env2["__old_prims__"] = {n: env[n] for n in c.nonlocals}
            for n in c.nonlocals:
                nv, st_h = fresh_value(st_h, env[n].ty, "nl." + n)
                env2[n] = nv
                st_h = st_h.bind(n, nv)
        res = SNone()
        if c.returns and c.returns != "none":
            res, st_h = fresh_value(st_h, S.parse_type(c.returns), "ret." + fn.name)
        env2["result"] = res
        for label, e in c.ensures.items():
            st_h = st_h.assume(PureEval(ex, st_h, env2, old_st=st_n).truth(e))
        return k(res, st_h)

    def havoc_modifies(self, ex, c: Contract, env, st: St) -> St:
        for path in c.modifies:
            if path in c.nonlocals: continue         # handled by the caller (re-binding, not mutation)
            st = havoc_path(ex, path, env, st)
        if c.allocates:
            new_alive = S.fresh("alive", st.alive.sort())
            i = z3.Int("i!al")
            st = st.fact(z3.ForAll([i], z3.Implies(st.alive[i], new_alive[i]))).but(alive=new_alive)
        return st


def havoc_path(ex, path: str, env, st: St) -> St:
    """path: 'self._nodes' (a dict/list/set cell, or a value field of an object)"""
    parts = path.split(".")
    v = env[parts[0]]
    for p in parts[1:-1]:
        v = st.cell(v.ref).fields[p]
    if len(parts) == 1:
        return havoc_ref(v, st, path)
    cell = st.cell(v.ref)
    f = cell.fields[parts[-1]]
    if isinstance(f, SRef):
        return havoc_ref(f, st, path)
    fty = S.parse_type(CLASS_FIELDS[cell.cls][parts[-1]])
    nv, st = fresh_value(st, fty, "hv." + path)
    fields = dict(cell.fields); fields[parts[-1]] = nv
    return st.put(v.ref, ObjCell(cell.cls, fields))


def havoc_ref(v: SRef, st: St, name: str) -> St:
    cell = st.cell(v.ref)
    if isinstance(cell, ObjCell):
        for fname in cell.fields:
            st = havoc_path(None, f"x.{fname}", {"x": v}, st)
        return st
    nv, st2 = fresh_value(st, v.ty, "hv." + name)
    newcell = st2.cell(nv.ref)
    h = dict(st2.heap); del h[nv.ref]; h[v.ref] = newcell
    return st2.but(heap=h)


class PureEval:
    """Pure, total evaluation of an expression to a symbolic value in a given state."""

    def __init__(self, ex, st: St, env: Dict[str, SV], old_st: St = None, bound=None):
        self.ex, self.st, self.env, self.old_st = ex, st, env, old_st
        self.specenv: SpecEnv = ex.spec if ex is not None else None
        self.defs: List[Any] = []      # definedness side conditions (dict key present, index in range)
        self.bound = tuple(bound or ())   # z3 constants bound by enclosing quantifiers (for lambda lifting)

    def sub(self, env=None, st=None, bound=None):
        p = PureEval(self.ex, st or self.st, env if env is not None else self.env, self.old_st,
                     bound=self.bound + tuple(bound or ()))
        p.defs = self.defs
        return p

    def truth(self, e):
        return ops.truth(self.st, self.ev(e))

    def snap(self, v):
        """containers become immutable snapshots of the evaluator's state"""
        if isinstance(v, SRef):
            c = self.st.cell(v.ref)
            if isinstance(c, DictCell): return SDictV(c.kty, c.vty, c.dom, c.val)
            if isinstance(c, ListCell): return SSeq(c.elem, c.n, c.arr, setview=c.setview)
            if isinstance(c, SetCell): return SSetV(c.elem, c.mem)
        if isinstance(v, SSubSet):
            return SSetV(v.elem, self.st.cell(v.ref).val[v.key])
        return v

    def ev(self, e) -> SV:
        m = getattr(self, "p_" + type(e).__name__, None)
        if m is None: raise Unsupported(f"spec expression {type(e).__name__}: {ast.unparse(e)[:60]}")
        return m(e)

    def p_Constant(self, e):
        v = e.value
        if v is None: return SNone()
        if isinstance(v, bool): return B(v)
        if isinstance(v, int): return I(v)
        if isinstance(v, str): return SPrim("str", S.str_lit(v))
        raise Unsupported(f"constant {v!r}")

    def p_Name(self, e):
        if e.id in self.env: return self.snap(self.env[e.id])
        if e.id in ("True", "False"): return B(e.id == "True")
        raise Unsupported(f"spec: unbound name {e.id}")

    def p_Tuple(self, e):
        vals = [self.ev(x) for x in e.elts]
        tys = {str(getattr(v, "ty", None)) for v in vals}
        if vals and len(tys) > 1:
            return STuple(list(vals))
        return self.ex.mk_seq(vals, self.st)

    p_List = p_Tuple

    def p_Attribute(self, e):
        o = self.ev(e.value)
        return self.attr(o, e.attr)

    def attr(self, o, name):
        if isinstance(o, SPrim) and (o.ty, name) in S.OPAQUE_ATTRS:
            ty, f = S.OPAQUE_ATTRS[(o.ty, name)]
            return S.wrap(ty, f(o.t))
        if isinstance(o, SPrim) and o.ty in S.DATA_FIELDS:
            try:
                return ops.data_field(o, name)
            except KeyError:
                g = self.ex.P.find_getter(o.ty, name)
                if g: return self.inline_pure(g[1], [o])
                raise Unsupported(f"spec: {o.ty}.{name}")
        if isinstance(o, SRef):
            c = self.st.cell(o.ref)
            if isinstance(c, ObjCell):
                if name in c.fields: return self.snap(c.fields[name])
                g = self.ex.P.find_getter(RESOLVE_AS.get(c.cls, c.cls), name)
                if g: return self.inline_pure(g[1], [o])
        raise Unsupported(f"spec: attribute .{name} of {o}")

    def inline_pure(self, fn, args):
        rets = [s for s in fn.body if not (isinstance(s, ast.Expr) and isinstance(s.value, ast.Constant))]
        if len(rets) != 1 or not isinstance(rets[0], ast.Return):
            raise Unsupported(f"spec: {fn.name} is not a single-return function")
        names = [a.arg for a in fn.args.args]
        return self.sub(env=dict(zip(names, args))).ev(rets[0].value)

    def p_Subscript(self, e):
        o = self.ev(e.value)
        if isinstance(e.slice, ast.Slice): raise Unsupported("spec: slice")
        i = self.ev(e.slice)
        if isinstance(o, STuple):
            return self.snap(o.items[z3.simplify(i.t).as_long()])
        if isinstance(o, SDictV):
            kt = ops.key_term(o.kty, i)
            if kt is None: raise Unsupported("spec: dict key of another type")
            self.defs.append(("KeyError", o.dom[kt]))
            return S.wrap(o.vty, o.val[kt])
        if isinstance(o, SSeq):
            self.defs.append(("IndexError", z3.And(i.t >= -o.n, i.t < o.n)))
            return S.wrap(o.elem, o.arr[i.t])
        raise Unsupported(f"spec: subscript on {o}")

    def p_UnaryOp(self, e):
        v = self.ev(e.operand)
        if isinstance(e.op, ast.Not): return B(z3.Not(ops.truth(self.st, v)))
        if isinstance(e.op, ast.USub): return I(-v.t)
        raise Unsupported(ast.unparse(e))

    def p_BoolOp(self, e):
        ts = [ops.truth(self.st, self.ev(v)) for v in e.values]
        return B(z3.And(*ts) if isinstance(e.op, ast.And) else z3.Or(*ts))

    def p_IfExp(self, e):
        c = self.truth(e.test)
        a, b = self.ev(e.body), self.ev(e.orelse)
        if isinstance(a, SPrim) and isinstance(b, SPrim) and a.ty == b.ty:
            return SPrim(a.ty, z3.If(c, a.t, b.t))
        if isinstance(a, SSeq) and isinstance(b, SSeq):
            return SSeq(a.elem, z3.If(c, a.n, b.n), z3.If(c, a.arr, b.arr))
        raise Unsupported("spec: conditional of non-primitive values")

    def p_Compare(self, e):
        left = self.ev(e.left)
        out = []
        for op, r in zip(e.ops, e.comparators):
            right = self.ev(r)
            out.append(self.cmp(op, left, right))
            left = right
        return B(z3.And(*out) if len(out) > 1 else out[0])

    def cmp(self, op, a, b):
        st = self.st
        if isinstance(op, ast.Eq): return self.eq(a, b)
        if isinstance(op, ast.NotEq): return z3.Not(self.eq(a, b))
        if isinstance(op, ast.In): return ops.contains(st, b, a)
        if isinstance(op, ast.NotIn): return z3.Not(ops.contains(st, b, a))
        if isinstance(op, ast.Is):
            if isinstance(a, SRef) and isinstance(b, SRef): return z3.BoolVal(a.ref == b.ref)
            return ops.equal(st, a, b)
        if isinstance(op, ast.IsNot): return z3.Not(self.cmp(ast.Is(), a, b))
        t = {ast.Lt: lambda: a.t < b.t, ast.LtE: lambda: a.t <= b.t, ast.Gt: lambda: a.t > b.t, ast.GtE: lambda: a.t >= b.t}
        return t[type(op)]()

    def eq(self, a, b):
        if isinstance(a, SRef) and isinstance(b, SRef): return z3.BoolVal(a.ref == b.ref)
        return ops.equal(self.st, a, b)

    def p_BinOp(self, e):
        a, b = self.ev(e.left), self.ev(e.right)
        if isinstance(a, SPrim) and isinstance(b, SPrim) and a.ty == b.ty == "int":
            if isinstance(e.op, ast.Add): return I(a.t + b.t)
            if isinstance(e.op, ast.Sub): return I(a.t - b.t)
            if isinstance(e.op, ast.Mult): return I(a.t * b.t)
        if isinstance(e.op, ast.Add) and isinstance(a, SSeq) and isinstance(b, SSeq):
            if a.elem is None: return b
            if b.elem is None: return a
            return ops.seq_concat(a, b)
        if isinstance(e.op, ast.Sub) and isinstance(a, SSetV) and isinstance(b, SSetV):
            x = z3.Const("x!sd", S.sort_of(a.elem))
            return SSetV(a.elem, z3.Lambda([x], z3.And(a.mem[x], z3.Not(b.mem[x]))))
        if isinstance(e.op, ast.BitOr) and isinstance(a, SSetV) and isinstance(b, SSetV):
            x = z3.Const("x!su", S.sort_of(a.elem))
            return SSetV(a.elem, z3.Lambda([x], z3.Or(a.mem[x], b.mem[x])))
        raise Unsupported(f"spec: {ast.unparse(e)}")

    def p_ListComp(self, e):
        return self.comp(e)

    p_GeneratorExp = p_ListComp

    def comp(self, e):
        if len(e.generators) != 1 or e.generators[0].ifs: raise Unsupported("spec: comprehension form")
        g = e.generators[0]
        src = self.ev(g.iter)
        if not isinstance(src, SSeq): raise Unsupported("spec: comprehension over a non-sequence")
        i = S.fresh("i!c", z3.IntSort())
        body = self.sub(env=dict(self.env, **{g.target.id: S.wrap(src.elem, src.arr[i])})).ev(e.elt)
        bt = term_of(body)
        j = z3.Int("j!c")
        arr = S.lift_lambda(self.bound, j, z3.If(z3.And(j >= 0, j < src.n), z3.substitute(bt, (i, j)), S.dflt(bt.sort())))
        return SSeq(body.ty, src.n, arr)

    def p_SetComp(self, e):
        """{f(x) for x in src if c(x)}: the same encoding as the executor's set(<comprehension>)"""
        if len(e.generators) != 1 or not isinstance(e.generators[0].target, ast.Name):
            raise Unsupported("spec: set comprehension form")
        g = e.generators[0]
        src = self.ev(g.iter)
        if not isinstance(src, SSetV): src = self.ex.to_setv(src, self.st)
        x = S.fresh("x!sb", S.sort_of(src.elem))
        pe = self.sub(env=dict(self.env, **{g.target.id: S.wrap(src.elem, x)}), bound=(x,))
        cond = z3.And(src.mem[x], *[ops.truth(self.st, pe.ev(c)) for c in g.ifs])
        body = pe.ev(e.elt)
        return SSetV(body.ty, S.set_builder_mem(pe.bound, x, cond, term_of(body)))

    def quant(self, lam, ty, universal):
        if not isinstance(lam, ast.Lambda): raise Unsupported("spec: quantifier needs a lambda")
        names = [a.arg for a in lam.args.args]
        parts, depth, cur = [], 0, ""
        for ch in ty:                              # split at top-level commas only: "int,tup[Id,seq[Id]]"
            if ch == "[": depth += 1
            if ch == "]": depth -= 1
            if ch == "," and depth == 0:
                parts.append(cur); cur = ""
            else:
                cur += ch
        parts.append(cur)
        tys = [S.parse_type(t.strip()) for t in parts]
        if len(names) != len(tys): raise Unsupported("spec: quantifier arity")
        # deterministic names: two evaluations of one specification clause yield the *same* z3 term (z3 abstracts the
        # constants when the quantifier is built, so re-using a name in another quantifier is harmless)
        vs = [z3.Const(f"{n}!q{len(self.bound)}", S.sort_of(t)) for n, t in zip(names, tys)]
        env = dict(self.env)
        for n, t, v in zip(names, tys, vs):
            env[n] = S.wrap(t, v)
        body = self.sub(env=env, bound=vs).truth(lam.body)
        return B(z3.ForAll(vs, body) if universal else z3.Exists(vs, body))

    def p_Call(self, e):
        f = e.func
        if isinstance(f, ast.Name):
            n = f.id
            if n in ("forall", "exists"):
                return self.quant(e.args[0], ast.literal_eval(e.args[1]), n == "forall")
            if n == "old":
                if self.old_st is None: raise Unsupported("spec: old() without an entry state")
                env_o = self.env
                if "__old_prims__" in env_o:
                    env_o = dict(env_o); env_o.update(env_o["__old_prims__"])
                return PureEval(self.ex, self.old_st, env_o, self.old_st, bound=self.bound).ev(e.args[0])
            if self.specenv and n in self.specenv.funcs:
                # user-defined spec function: a container passed by name stays a reference, so that old(<param>)
                # inside the function body means the container in the entry state (not a snapshot of the current one)
                sf = self.specenv.funcs[n]
                fargs = [self.env[a.id] if isinstance(a, ast.Name) and isinstance(self.env.get(a.id), SRef) else self.ev(a)
                         for a in e.args]
                env_f = dict(zip(sf.params, fargs))
                for keep in ("__entry__",):        # (not __old_prims__: it is keyed by the caller's names)
                    if keep in self.env: env_f[keep] = self.env[keep]
                return self.sub(env=env_f).ev(sf.body)
            args = [self.ev(a) for a in e.args]
            if n == "implies": return B(z3.Implies(ops.truth(self.st, args[0]), ops.truth(self.st, args[1])))
            if n == "iff": return B(ops.truth(self.st, args[0]) == ops.truth(self.st, args[1]))
            if n == "len":
                v = args[0]
                if isinstance(v, SOpaqueObj): return I(S.obj_fn("len", S.Obj, z3.IntSort())(v.ident()))
                if isinstance(v, SSeq): return I(v.n)
                if isinstance(v, SSetV): return I(ops.card(v.mem)[0])
                if isinstance(v, SDictV): return I(ops.card(v.dom)[0])
                raise Unsupported("spec: len of a non-sequence")
            if n == "keys": return SSetV(args[0].kty, args[0].dom)
            if n == "vals":
                d = args[0]
                return SSetV(d.vty, ops.vals_mem(d.kty, d.vty, d.dom, d.val))
            if n == "put":
                d, kx, v = args
                kt = ops.key_term(d.kty, kx)
                return SDictV(d.kty, d.vty, z3.Store(d.dom, kt, True), z3.Store(d.val, kt, term_of(v)))
            if n == "drop":
                d, kx = args
                return SDictV(d.kty, d.vty, z3.Store(d.dom, ops.key_term(d.kty, kx), False), d.val)
            if n == "prefix_set":
                sq, i = args
                x = z3.Const("x!ps", S.sort_of(sq.elem)); j = z3.Int("j!ps")
                return SSetV(sq.elem, z3.Lambda([x], z3.Exists([j], z3.And(j >= 0, j < i.t, sq.arr[j] == x))))
            if n == "with_": return SSetV(args[0].elem, z3.Store(args[0].mem, term_of(args[1]), True))
            if n == "without": return SSetV(args[0].elem, z3.Store(args[0].mem, term_of(args[1]), False))
            if n == "append": return ops.seq_append(args[0], term_of(args[1]))
            if n == "alive": return B(self.st.alive[args[0].t])
            if n == "was_alive": return B(self.old_st.alive[args[0].t])       # argument evaluated in the current state
            if n == "warned": return B(self.st.warned)
            if n == "always_passed":
                return B(self.st.ghost.get(f"passed:{e.args[0].value}:{e.args[1].value}", z3.BoolVal(True)))
            if n == "last": return B(self.st.ghost.get("last:" + e.args[0].value, z3.BoolVal(False)))
            if n == "count": return I(self.st.ghost.get("count:" + e.args[0].value, z3.IntVal(0)))
            if n == "iterations":        # of loop #k of the function, over all executions of that loop
                return I(self.st.ghost.get(f"count:__iter{e.args[0].value}", z3.IntVal(0)))
            if n == "count_true": return I(self.st.ghost.get("counttrue:" + e.args[0].value, z3.IntVal(0)))
            if n == "tuple" or n == "list": return args[0] if args else EmptySeqP()
            if n == "set": return self.ex.to_setv(args[0], self.st)
            if n in ("all", "any"):
                sq = args[0]
                i = S.fresh("i!q", z3.IntSort())
                rng = z3.And(i >= 0, i < sq.n)
                return B(z3.ForAll([i], z3.Implies(rng, sq.arr[i])) if n == "all" else z3.Exists([i], z3.And(rng, sq.arr[i])))
            if n == "isinstance":
                return B(self.ex.isinstance_(args[0], SClosure("name", e.args[1].id), self.st))
            if n == "param":
                return self.snap(self.env["__entry__"].env[e.args[0].value])
            if n == "is_fresh":
                v = self.env.get(e.args[0].id)
                if not isinstance(v, SRef): return B(False)
                old_refs = set(self.old_st.heap)
                refs = [v.ref]
                c = self.st.cell(v.ref)
                if isinstance(c, ObjCell):
                    refs += [f.ref for f in c.fields.values() if isinstance(f, SRef)]
                return B(all(r not in old_refs for r in refs) and len(set(refs)) == len(refs))
            if n == "is_str_id": return B(S.Id.is_StrId(args[0].t))
            if n == "is_int_id": return B(S.Id.is_IntId(args[0].t))
            if n == "int_of": return I(S.Id.i(args[0].t))
            if self.specenv and n in self.specenv.funcs:
                sf = self.specenv.funcs[n]
                return self.sub(env=dict(zip(sf.params, args))).ev(sf.body)
            raise Unsupported(f"spec: call of {n}")
        if isinstance(f, ast.Attribute):
            o = self.ev(f.value)
            args = [self.ev(a) for a in e.args]
            if isinstance(o, SDictV):
                if f.attr == "keys": return SSetV(o.kty, o.dom)
                if f.attr == "values": return self.p_Call(ast.Call(ast.Name("vals"), [f.value], []))
            if isinstance(o, SSetV) and f.attr in ("issubset", "issuperset"):
                b = args[0] if isinstance(args[0], SSetV) else self.ex.to_setv(args[0], self.st)
                x = z3.Const("x!ss", S.sort_of(o.elem))
                p, q = (o, b) if f.attr == "issubset" else (b, o)
                return B(z3.ForAll([x], z3.Implies(p.mem[x], q.mem[x])))
            if isinstance(o, SPrim) and (o.ty, f.attr) in S.OPAQUE_METHODS:
                ty, fn_ = S.OPAQUE_METHODS[(o.ty, f.attr)]
                return S.wrap(ty, fn_(o.t))
            # pure program methods (single return) on objects / data values
            cls = None
            if isinstance(o, SPrim) and o.ty in S.DATA_FIELDS: cls = o.ty
            if isinstance(o, SRef) and isinstance(self.st.cell(o.ref), ObjCell):
                cls = RESOLVE_AS.get(self.st.cell(o.ref).cls, self.st.cell(o.ref).cls)
            if cls:
                m = self.ex.P.find_method(cls, f.attr)
                if m: return self.inline_pure(m[1], [o] + args)
        raise Unsupported(f"spec: call {ast.unparse(e)[:60]}")

    def env_old(self):
        """Parameters keep their entry values: the verifier stores them under '__entry__'."""
        ent = self.env.get("__entry__")
        return dict(ent.env) if ent is not None else self.env


class EmptySeqP(SSeq):
    def __init__(self):
        self.elem, self.n, self.arr, self.ty = None, z3.IntVal(0), None, ("seq", None)


class Entry(SV):
    """Holder of the entry environment (for old())."""
    def __init__(self, env):
        self.env, self.ty = env, "entry"
