"""Calls and statements (second half of the executor)."""
from __future__ import annotations
import ast, z3
from vf.pyvc import sorts as S
from vf.pyvc.sorts import *
from vf.pyvc.state import *
from vf.pyvc import ops
from vf.pyvc.ops import B, I
from vf.pyvc.exec import Exec, Frame, EmptySeq, SRecord, DATA_CLASSES
from vf.pyvc.schema import CLASS_FIELDS, RESOLVE_AS

EXC_NAMES = ("Exception", "ValueError", "TypeError", "KeyError", "IndexError", "AssertionError", "RuntimeError")


class Executor(Exec):

    # ---- calls -------------------------------------------------------------------------------
    def ev_Call(self, e, st, k):
        if any(isinstance(a, ast.Starred) for a in e.args) or any(kw.arg is None for kw in e.keywords):
            oc = getattr(self.cur_contract, "opaque_calls", None) or []
            fname = e.func.attr if isinstance(e.func, ast.Attribute) else getattr(e.func, "id", "")
            if fname not in oc:
                raise Unsupported("star args")
            plain = [a for a in e.args if not isinstance(a, ast.Starred)]
            return self.evs(plain, st, lambda vals, st2: self.opaque_call(fname, st2, k, vals, {}))
        if (isinstance(e.func, ast.Name) and e.func.id in ("set", "frozenset") and len(e.args) == 1 and not e.keywords
                and isinstance(e.args[0], (ast.ListComp, ast.GeneratorExp, ast.SetComp))
                and len(e.args[0].generators) == 1 and isinstance(e.args[0].generators[0].target, ast.Name)
                and e.func.id not in st.env):
            return self.set_builder(e.args[0], e.func.id == "set", st, k)
        def got_f(f, st2):
            def got_args(vals, st3):
                args = vals[:len(e.args)]
                kw = {kwd.arg: v for kwd, v in zip(e.keywords, vals[len(e.args):])}
                return self.apply(f, args, kw, st3, k, e)
            return self.evs(list(e.args) + [kwd.value for kwd in e.keywords], st2, got_args)
        return self.ev(e.func, st, got_f)

    def set_builder(self, comp, mutable, st, k):
        """set(f(x) for x in src if c(x))  as  { y | exists x in src: c(x) and y == f(x) }  (no index maps)."""
        g = comp.generators[0]
        def got(it, st2):
            if isinstance(it, SOpaqueObj):
                return k(SOpaqueObj("set()"), st2)
            try:
                src = self.to_setv(it, st2)
            except Unsupported:
                st2, sq = self.iter_seq(it, st2)
                src = self.to_setv(sq, st2)
            from vf.pyvc.spec import PureEval
            xs = S.sort_of(src.elem)
            x = S.fresh("x!sb", xs)
            pe = PureEval(self, st2, dict(st2.env, **{g.target.id: S.wrap(src.elem, x)}), bound=(x,))
            cond = z3.And(src.mem[x], *[ops.truth(st2, pe.ev(c)) for c in g.ifs])
            body = pe.ev(comp.elt)
            if isinstance(body, SRef): raise Unsupported("set of mutable objects")
            bt = term_of(body)
            mem = S.set_builder_mem((x,), x, cond, bt)
            def fin(st3):
                sv = SSetV(body.ty, mem)
                if not mutable: return k(sv, st3)
                r = new_ref()
                return k(SRef(("set", body.ty), r), st3.put(r, SetCell(body.ty, mem)))
            # an element expression that is undefined for some selected element raises
            def go(defs, st3):
                if not defs: return fin(st3)
                exc, c = defs[0]
                allc = z3.ForAll([x], z3.Implies(cond, c))
                return self.branch(allc, st3, lambda s: go(defs[1:], s), lambda s: self.raise_(exc, s))
            return go(list(pe.defs), st2)
        return self.ev(g.iter, st, got)

    def opaque_call(self, name, st, k, args=(), kw=None):
        """A call the model does not look into: fresh result of the declared type, ghost bookkeeping
        (call count, last boolean result, whether every call forwarded a keyword equal to the
        top-level parameter of the same name)."""
        c = self.cur_contract
        short = name.split(".")[-1]
        lits = []
        for a in args:
            if isinstance(a, SPrim) and a.ty == "str" and a.t.decl().name().startswith("str:"):
                lits.append(repr(a.t.decl().name()[4:]))
        g0 = dict(st.ghost)
        ent = getattr(self, "entry_env", None) or {}
        for pname, pv in ent.items():
            if not isinstance(pv, SPrim): continue
            passed = (kw or {}).get(pname)
            ok = (passed.t == pv.t) if isinstance(passed, SPrim) and passed.ty == pv.ty else z3.BoolVal(False)
            key = f"passed:{short}:{pname}"
            g0[key] = z3.And(g0.get(key, z3.BoolVal(True)), ok)
        st = st.but(ghost=g0)
        rty = (getattr(c, "opaque_results", None) or {}).get(short, "opaque") if c else "opaque"
        res, st = fresh_value(st, S.parse_type(rty), "op." + short)
        if isinstance(res, SOpaqueObj): res = SOpaqueObj(f"{name}({','.join(lits)})")
        g = dict(st.ghost)
        cnt = g.get("count:" + short, z3.IntVal(0))
        g["count:" + short] = cnt + 1
        if isinstance(res, SPrim): g["last:" + short] = res.t
        if isinstance(res, SPrim) and res.ty == "bool":       # how many calls returned True so far
            g["counttrue:" + short] = g.get("counttrue:" + short, z3.IntVal(0)) + z3.If(res.t, 1, 0)
        return k(res, st.but(ghost=g))

    def apply(self, f, args, kw, st, k, node=None):
        if isinstance(f, SOpaqueObj):
            return self.opaque_call(f.name, st, k, args, kw)
        oc = getattr(self.cur_contract, "opaque_calls", None) or []
        if isinstance(f, SClosure) and f.name.split(".")[-1] in oc:
            return self.opaque_call(f.name, st, k, args, kw)
        if not isinstance(f, SClosure):
            raise Unsupported(f"call of {f}")
        if f.kind == "setattr":
            rec, name, val = args
            if not isinstance(rec, SRecord): raise Unsupported("object.__setattr__ on a non-record")
            lit = self.str_value(name)
            rec.fields = dict(rec.fields); rec.fields[lit] = val
            return k(SNone(), st)
        if f.kind == "func":
            fn = self.P.functions[f.name]
            return self.call_user(f"fggs.{f.name}", fn, args, kw, st, k)
        if f.kind == "unbound":      # Class.method(self, ...)
            m = self.P.find_method(f.recv, f.name)
            return self.call_user(f"fggs.{self.P.classes[m[0]].module}.{m[0]}.{f.name}", m[1], args, kw, st, k, owner=m[0])
        if f.kind == "method":
            return self.call_method(f.recv, f.name, args, kw, st, k)
        if f.kind == "modattr":
            return self.call_modattr(f.name, args, kw, st, k)
        if f.kind == "name":
            return self.call_name(f.name, args, kw, st, k)
        if f.kind == "noop":
            return k(SNone(), st)
        if f.kind == "boundfn":
            fn, selfv, owner = f.recv
            return self.call_function(fn, [selfv] + args, kw, st, k, owner=owner)
        if f.kind == "local":
            # a nested function: only through its own (modular) contract; it sees the caller's variables
            c = self.spec.contracts.get(f.name) if self.spec is not None else None
            if c is None or not c.modular:
                raise Unsupported(f"nested function {f.name} without a modular contract")
            return self.spec.call_by_contract(self, c, f.recv, args, kw, st, k)
        if f.kind == "emptydict":
            raise Unsupported("call of a dict")
        raise Unsupported(f"call {f}")

    def str_value(self, v) -> str:
        if isinstance(v, SPrim) and v.ty == "str":
            n = v.t.decl().name()
            if n.startswith("str:"): return n[4:]
        raise Unsupported("non-literal attribute name")

    def call_user(self, qual, fn, args, kw, st, k, owner=None):
        """A function of the program: by contract when one is registered as modular, else inlined."""
        if self.spec is not None:
            c = self.spec.modular_contract(qual)
            if c is not None and c is not self.cur_contract_top:
                return self.spec.call_by_contract(self, c, fn, args, kw, st, k)
        return self.call_function(fn, args, kw, st, k, owner=owner)

    cur_contract_top = None

    def call_function(self, fn: ast.FunctionDef, args, kw, st: St, k, owner=None):
        """Inline a function of the program."""
        depth, f = 0, st.fr
        while f is not None:
            depth += 1; f = f.parent
        if depth > 14:
            raise Unsupported("recursion / call depth")
        env = self.bind_params(fn, args, kw, st)
        if owner: env["__class__"] = SClosure("name", owner)
        caller_env, caller_fr = st.env, st.fr
        def on_return(v, st2):
            return k(v, st2.but(env=caller_env, fr=caller_fr))
        def on_raise(exc, st2):
            return caller_fr.on_raise(exc, st2.but(env=caller_env, fr=caller_fr))
        fr = Frame(on_return, on_raise, caller_fr, fn.name)
        fr.fn, fr.qual = fn, getattr(self, "fn_qual", {}).get(id(fn), (None, None))[0]
        fr.entry_st = st.but(env=env)        # old() in this function's loop invariants means: at this call
        return self.ex(fn.body, st.but(env=env, fr=fr), lambda st2: on_return(SNone(), st2))

    def bind_params(self, fn, args, kw, st):
        a = fn.args
        names = [x.arg for x in a.posonlyargs + a.args]
        env = {}
        if len(args) > len(names): raise Unsupported(f"too many arguments to {fn.name}")
        for n, v in zip(names, args):
            env[n] = v
        defaults = dict(zip(names[len(names) - len(a.defaults):], a.defaults))
        kwdefaults = {x.arg: d for x, d in zip(a.kwonlyargs, a.kw_defaults)}
        for n in names[len(args):] + [x.arg for x in a.kwonlyargs]:
            if n in kw:
                env[n] = kw[n]
            else:
                d = defaults.get(n, kwdefaults.get(n))
                if d is None: raise Unsupported(f"missing argument {n} of {fn.name}")
                env[n] = self.const_default(d)
        for n in kw:
            if n not in env: raise Unsupported(f"unexpected keyword {n}")
        return env

    def const_default(self, d):
        if isinstance(d, ast.Constant):
            if d.value is None: return SNone()
            if isinstance(d.value, bool): return B(d.value)
            if isinstance(d.value, int): return I(d.value)
            if isinstance(d.value, str): return SPrim("str", S.str_lit(d.value))
        raise Unsupported("non-constant default")

    # constructors and builtins
    def call_name(self, name, args, kw, st, k):
        P = self.P
        if name in DATA_CLASSES:
            return self.construct_data(name, args, kw, st, k)
        if name in P.classes and name in CLASS_FIELDS:
            return self.construct_obj(name, args, kw, st, k)
        if name in EXC_NAMES:
            return k(SClosure("exc", name), st)
        if name == "len" and isinstance(args[0], SOpaqueObj):
            n = S.obj_fn("len", S.Obj, z3.IntSort())(args[0].ident())
            return k(I(n), st.fact(n >= 0))
        if name == "len":
            v = args[0]
            mem = None
            if isinstance(v, SRef) and isinstance(st.cell(v.ref), DictCell): mem = st.cell(v.ref).dom
            elif isinstance(v, SRef) and isinstance(st.cell(v.ref), SetCell): mem = st.cell(v.ref).mem
            elif isinstance(v, SSetV): mem = v.mem
            elif isinstance(v, SSubSet): mem = st.cell(v.ref).val[v.key]
            if mem is not None:
                c, facts = ops.card(mem)
                for f in facts: st = st.fact(f)
                return k(I(c), st)
            return k(I(ops.as_seq(st, v).n), st)
        if name in ("tuple", "list", "set", "frozenset", "dict", "sorted") and args and isinstance(args[0], SOpaqueObj):
            return k(SOpaqueObj(name + "()"), st)
        if name in ("tuple", "list"):
            if not args:
                sq = EmptySeq()
            else:
                st, sq = self.iter_seq(args[0], st)
            if name == "tuple": return k(sq, st)
            if isinstance(sq, EmptySeq): raise Unsupported("list() of unknown element type")
            r = new_ref()
            return k(SRef(("list", sq.elem), r), st.put(r, ListCell(sq.elem, sq.n, sq.arr, getattr(sq, "setview", None))))
        if name == "dict":
            if not args: return k(SClosure("emptydict", "{}"), st)
            c = st.cell(args[0].ref)
            if not isinstance(c, DictCell): raise Unsupported("dict(x)")
            r = new_ref()
            return k(SRef(args[0].ty, r), st.put(r, c))
        if name == "frozenset":
            if not args: return k(SClosure("emptyset", "set()"), st)
            return k(self.to_setv(args[0], st), st)
        if name == "set":
            if not args: return k(SClosure("emptyset", "set()"), st)
            sv = self.to_setv(args[0], st)
            r = new_ref()
            return k(SRef(("set", sv.elem), r), st.put(r, SetCell(sv.elem, sv.mem)))
        if name == "isinstance":
            return k(B(self.isinstance_(args[0], args[1], st)), st)
        if name in ("_id", "id"):
            v = S.fresh("id", z3.IntSort())
            st = st.assume(z3.Not(st.alive[v])).but(alive=z3.Store(st.alive, v, True))
            return k(SPrim("Id", S.Id.IntId(v)), st)
        if name == "cast":
            return k(args[1], st)
        if name == "iter" and len(args) == 1:
            return k(args[0], st)              # used only as an iterable
        if name == "print":
            return k(SNone(), st)
        if name == "super":
            selfv = st.env.get("self")
            cur = st.env.get("__class__")
            if selfv is None or cur is None: raise Unsupported("super() outside a method")
            cell = st.cell(selfv.ref) if isinstance(selfv, SRef) else None
            dyn = RESOLVE_AS.get(cell.cls, cell.cls) if cell is not None else selfv.cls
            return k(SClosure("super", cur.name, recv=(dyn, selfv)), st)
        if name == "type" and len(args) == 1:
            v = args[0]
            if isinstance(v, SRef) and isinstance(st.cell(v.ref), ObjCell):
                return k(SClosure("name", st.cell(v.ref).cls), st)
            if isinstance(v, SPrim) and v.ty in self.P.classes: return k(SClosure("name", v.ty), st)
            raise Unsupported("type() of a builtin value")
        if name == "str":
            v = args[0]
            if isinstance(v, SPrim) and v.ty == "str": return k(v, st)
            return k(SOpaque("str()"), st)
        if name in ("all", "any") and isinstance(args[0], SOpaqueObj):
            return k(B(S.fresh(name, z3.BoolSort())), st)
        if name in ("all", "any"):
            sq = args[0]
            if not (isinstance(sq, SSeq) and sq.elem == "bool"): raise Unsupported(f"{name}() of {sq}")
            i = S.fresh("i!q", z3.IntSort())
            rng = z3.And(i >= 0, i < sq.n)
            t = z3.ForAll([i], z3.Implies(rng, sq.arr[i])) if name == "all" else z3.Exists([i], z3.And(rng, sq.arr[i]))
            return k(B(t), st)
        if name in ("zip", "enumerate", "range", "reversed"):
            return k(SIter(name, args), st)
        if name in ("min", "max") and len(args) == 1 and "key" in kw:
            # an element of the iterable minimising an opaque key: *some* element (ValueError if empty)
            sv = self.to_setv(args[0], st)
            x = z3.Const("x!mn", S.sort_of(sv.elem))
            def some(s2):
                v, s3 = fresh_value(s2, sv.elem, name)
                return k(v, s3.assume(sv.mem[v.t]))
            return self.branch(z3.Exists([x], sv.mem[x]), st, some, lambda s2: self.raise_("ValueError", s2))
        if name == "max" and len(args) == 2 and all(isinstance(a, SPrim) and a.ty == "int" for a in args):
            return k(I(z3.If(args[0].t >= args[1].t, args[0].t, args[1].t)), st)
        if name == "min" and len(args) == 2 and all(isinstance(a, SPrim) and a.ty == "int" for a in args):
            return k(I(z3.If(args[0].t <= args[1].t, args[0].t, args[1].t)), st)
        raise Unsupported(f"call of {name}")

    def to_setv(self, v, st) -> SSetV:
        if isinstance(v, SSetV): return v
        if isinstance(v, SSeq) and getattr(v, "setview", None) is not None:
            return SSetV(v.elem, v.setview)
        if isinstance(v, SSeq):
            x = z3.Const("x!ts", S.sort_of(v.elem)); i = z3.Int("i!ts")
            return SSetV(v.elem, z3.Lambda([x], z3.Exists([i], z3.And(i >= 0, i < v.n, v.arr[i] == x))))
        if isinstance(v, SRef):
            c = st.cell(v.ref)
            if isinstance(c, SetCell): return SSetV(c.elem, c.mem)
            if isinstance(c, ListCell): return self.to_setv(SSeq(c.elem, c.n, c.arr, setview=c.setview), st)
            if isinstance(c, DictCell): return SSetV(c.kty, c.dom)
        if isinstance(v, SDictView):
            c = st.cell(v.ref)
            if v.kind == "keys": return SSetV(c.kty, c.dom)
            if v.kind == "values":
                return SSetV(c.vty, ops.vals_mem(c.kty, c.vty, c.dom, c.val))
        if isinstance(v, SSubSet):
            return SSetV(v.elem, st.cell(v.ref).val[v.key])
        raise Unsupported(f"set({v})")

    def isinstance_(self, v, cls, st):
        if not (isinstance(cls, SClosure) and cls.kind == "name"): raise Unsupported("isinstance with computed class")
        c = cls.name
        if isinstance(v, SNone): return z3.BoolVal(False)
        if isinstance(v, SPrim) and v.ty == "PyVal":
            return S.obj_fn("isinstance." + c, S.PyVal, z3.BoolSort())(v.t)
        if isinstance(v, SPrim):
            if v.ty == "Id":
                return {"str": S.Id.is_StrId(v.t), "int": S.Id.is_IntId(v.t)}.get(c, z3.BoolVal(False))
            if v.ty in ("str", "int", "bool"): return z3.BoolVal(v.ty == c or (v.ty == "bool" and c == "int"))
            return z3.BoolVal(v.ty == c)
        if isinstance(v, SSeq): return z3.BoolVal(c == "tuple" or c == "Sequence")
        if isinstance(v, SRef):
            cell = st.cell(v.ref)
            if isinstance(cell, ObjCell):
                return z3.BoolVal(self.P.is_subclass(RESOLVE_AS.get(cell.cls, cell.cls), c))
            if isinstance(cell, ListCell): return z3.BoolVal(c in ("list", "Sequence"))
            if isinstance(cell, DictCell): return z3.BoolVal(c == "dict")
            if isinstance(cell, SetCell): return z3.BoolVal(c == "set")
        if isinstance(v, SRecord): return z3.BoolVal(v.cls == c)
        raise Unsupported(f"isinstance({v}, {c})")

    def construct_data(self, cls, args, kw, st, k):
        ci = self.P.classes[cls]
        if "__init__" in ci.methods:
            rec = SRecord(cls)
            def done(_, st2):
                return k(self.pack_record(rec, st2), st2)
            return self.call_function(ci.methods["__init__"], [rec] + args, kw, st, done, owner=cls)
        fields = [f for f, _ in S.DATA_FIELDS[cls]]
        rec = SRecord(cls)
        for n, v in list(zip(fields, args)) + list(kw.items()):
            rec.fields[n] = v
        return k(self.pack_record(rec, st), st)

    def pack_record(self, rec: SRecord, st) -> SPrim:
        terms = []
        for fname, fty in S.DATA_FIELDS[rec.cls]:
            if fname not in rec.fields: raise Unsupported(f"{rec.cls}.{fname} not set by constructor")
            v = rec.fields[fname]
            fty = S.parse_type(fty) if isinstance(fty, str) else fty
            if isinstance(fty, tuple) and fty[0] == "seq":
                if isinstance(v, SClosure) and v.kind == "emptylist": v = EmptySeq()
                sq = ops.as_seq(st, v) if not isinstance(v, EmptySeq) else v
                if isinstance(sq, EmptySeq): sq = ops.empty_seq(fty[1])
                if sq.elem != fty[1]: raise Unsupported(f"{rec.cls}.{fname}: element type {sq.elem}")
                terms.append(sq.packed())
            elif fty == "Id":
                terms.append(term_of(self.to_id(v)))
            else:
                if not isinstance(v, SPrim) or v.ty != fty: raise Unsupported(f"{rec.cls}.{fname}: {v}")
                terms.append(v.t)
        return SPrim(rec.cls, getattr(S.DATA[rec.cls], rec.cls)(*terms))

    def to_id(self, v):
        if isinstance(v, SNone): return SPrim("Id", S.Id.NoneId)
        if isinstance(v, SPrim) and v.ty == "Id": return v
        if isinstance(v, SPrim) and v.ty == "str": return SPrim("Id", S.Id.StrId(v.t))
        if isinstance(v, SPrim) and v.ty == "int": return SPrim("Id", S.Id.IntId(v.t))
        raise Unsupported(f"id value {v}")

    def construct_obj(self, cls, args, kw, st, k):
        r = new_ref()
        st = st.put(r, ObjCell(cls, {}))
        o = SRef(("obj", cls), r)
        m = self.P.find_method(cls, "__init__")
        if m is None:    # plain @dataclass
            fields = list(CLASS_FIELDS[cls])
            cell = ObjCell(cls, dict(list(zip(fields, args)) + list(kw.items())))
            st = st.put(r, cell)
            pi = self.P.find_method(cls, "__post_init__")
            if pi: return self.call_function(pi[1], [o], {}, st, lambda _, st2: k(o, st2), owner=cls)
            return k(o, st)
        return self.call_function(m[1], [o] + args, kw, st, lambda _, st2: k(o, st2), owner=m[0])

    def call_modattr(self, name, args, kw, st, k):
        if name == "warnings.warn":
            return k(SNone(), st.but(warned=z3.BoolVal(True)))
        if name == "copy.deepcopy":
            raise Unsupported("copy.deepcopy")
        raise Unsupported(f"call of {name}")

    # methods of builtin containers and of program classes
    def call_method(self, recv, name, args, kw, st, k):
        if isinstance(recv, SPrim) and recv.ty == "str":
            return k(SOpaque("str." + name), st)          # string formatting is not modelled
        if isinstance(recv, SPrim) and (recv.ty, name) in S.OPAQUE_METHODS:
            ty, f = S.OPAQUE_METHODS[(recv.ty, name)]
            return k(S.wrap(ty, f(recv.t)), st)
        if isinstance(recv, SRef):
            c = st.cell(recv.ref)
            if isinstance(c, ObjCell):
                cls = RESOLVE_AS.get(c.cls, c.cls)
                m = self.P.find_method(cls, name)
                if m is None and name == "keys" and self.P.find_method(cls, "__iter__"):
                    # collections.abc.Mapping.keys(): a view that iterates through __iter__
                    it = self.P.find_method(cls, "__iter__")
                    return self.call_function(it[1], [recv], {}, st, k, owner=it[0])
                if m is None: raise Unsupported(f"{c.cls}.{name}")
                qual = f"fggs.{self.P.classes[m[0]].module}.{m[0]}.{name}"
                if name in self.P.classes[m[0]].static:
                    return self.call_user(qual, m[1], args, kw, st, k, owner=m[0])
                return self.call_user(qual, m[1], [recv] + args, kw, st, k, owner=m[0])
            if isinstance(c, DictCell): return self.dict_method(recv, c, name, args, st, k)
            if isinstance(c, ListCell): return self.list_method(recv, c, name, args, st, k)
            if isinstance(c, SetCell): return self.set_method(recv, c, name, args, st, k)
        if isinstance(recv, SPrim) and recv.ty in DATA_CLASSES:
            m = self.P.find_method(recv.ty, name)
            if m: return self.call_function(m[1], [recv] + args, kw, st, k, owner=recv.ty)
        if isinstance(recv, SSubSet): return self.subset_method(recv, name, args, st, k)
        if isinstance(recv, SDictV):
            if name == "keys": return k(SSetV(recv.kty, recv.dom), st)
            raise Unsupported(f"method .{name} of an immutable mapping")
        if isinstance(recv, SSetV):
            if name == "issubset" or name == "issuperset":
                o = self.to_setv(args[0], st)
                x = z3.Const("x!ss", S.sort_of(recv.elem))
                a, b = (recv, o) if name == "issubset" else (o, recv)
                return k(B(z3.ForAll([x], z3.Implies(a.mem[x], b.mem[x]))), st)
        if isinstance(recv, SClosure) and recv.kind == "emptydict":
            pass
        raise Unsupported(f"method .{name} of {recv}")

    def dict_method(self, recv, c: DictCell, name, args, st, k):
        if name in ("keys", "values", "items"):
            return k(SDictView(name, recv.ref), st)
        if name == "copy":
            r = new_ref(); return k(SRef(recv.ty, r), st.put(r, c))
        if name == "get":
            kt = ops.key_term(c.kty, args[0])
            dv = args[1] if len(args) > 1 else SNone()
            if isinstance(dv, SClosure) and dv.kind == "emptylist" and isinstance(c.vty, tuple) and c.vty[0] in ("seq", "list"):
                dv = ops.empty_seq(c.vty[1])             # d.get(k, []) on a dict of sequences
            if kt is None: return k(dv, st)
            return self.branch(c.dom[kt], st, lambda s: k(S.wrap(c.vty, c.val[kt]), s), lambda s: k(dv, s))
        if name == "setdefault" and len(args) == 2:
            kt = ops.key_term(c.kty, args[0])
            if kt is None: raise Unsupported("dict.setdefault key type")
            vt = term_of(self.coerce(args[1], c.vty, st))
            def absent(s):
                return k(S.wrap(c.vty, vt), s.put(recv.ref, DictCell(c.kty, c.vty, z3.Store(c.dom, kt, True), z3.Store(c.val, kt, vt))))
            return self.branch(c.dom[kt], st, lambda s: k(S.wrap(c.vty, c.val[kt]), s), absent)
        raise Unsupported(f"dict.{name}")

    def list_method(self, recv, c: ListCell, name, args, st, k):
        if name == "append":
            v = args[0]
            if isinstance(v, SOpaqueObj) and c.elem == "PyVal":
                v = SPrim("PyVal", S.fresh("pv", S.PyVal))
            if isinstance(v, SRef) and isinstance(st.cell(v.ref), SetCell) and c.elem == ("set", st.cell(v.ref).elem):
                # a set stored into a list of set *values*: a snapshot; the object itself is retired (any later use of it
                # is outside the subset), so that aliasing between the list element and the name cannot be observed
                mem = st.cell(v.ref).mem
                st = st.put(recv.ref, ListCell(c.elem, c.n + 1, z3.Store(c.arr, c.n, mem)))
                h = dict(st.heap); h[v.ref] = Retired()
                return k(SNone(), st.but(heap=h))
            if isinstance(c.elem, tuple) and c.elem[0] == "seq" and not isinstance(v, SSeq):
                try:
                    sv = ops.as_seq(st, v)
                    if sv.elem == c.elem[1]: v = SSeq(sv.elem, sv.n, sv.arr)        # a list stored into a list of sequences: by value
                except Unsupported:
                    pass
            if v.ty != c.elem: raise Unsupported("list.append of another element type")
            return k(SNone(), st.put(recv.ref, ListCell(c.elem, c.n + 1, z3.Store(c.arr, c.n, term_of(v)))))
        if name == "copy":
            r = new_ref(); return k(SRef(recv.ty, r), st.put(r, c))
        if name == "pop" and not args:
            def ok(s):
                v = S.wrap(c.elem, c.arr[c.n - 1])
                return k(v, s.put(recv.ref, ListCell(c.elem, c.n - 1, z3.Store(c.arr, c.n - 1, S.dflt(S.sort_of(c.elem))))))
            return self.branch(c.n > 0, st, ok, lambda s: self.raise_("IndexError", s))
        raise Unsupported(f"list.{name}")

    def set_method(self, recv, c: SetCell, name, args, st, k):
        if name == "add":
            return k(SNone(), st.put(recv.ref, SetCell(c.elem, z3.Store(c.mem, term_of(args[0]), True))))
        if name == "discard":
            return k(SNone(), st.put(recv.ref, SetCell(c.elem, z3.Store(c.mem, term_of(args[0]), False))))
        if name == "remove":
            t = term_of(args[0])
            return self.branch(c.mem[t], st,
                               lambda s: k(SNone(), s.put(recv.ref, SetCell(c.elem, z3.Store(c.mem, t, False)))),
                               lambda s: self.raise_("KeyError", s))
        if name == "pop" and not args:
            # an arbitrary element (KeyError on the empty set)
            x = z3.Const("x!sp", S.sort_of(c.elem))
            def some(s2):
                v, s3 = fresh_value(s2, c.elem, "popped")
                s3 = s3.assume(c.mem[v.t])
                return k(v, s3.put(recv.ref, SetCell(c.elem, z3.Store(c.mem, v.t, False))))
            return self.branch(z3.Exists([x], c.mem[x]), st, some, lambda s2: self.raise_("KeyError", s2))
        if name == "update":
            o = self.to_setv(args[0], st)
            x = z3.Const("x!su", S.sort_of(c.elem))
            return k(SNone(), st.put(recv.ref, SetCell(c.elem, z3.Lambda([x], z3.Or(c.mem[x], o.mem[x])))))
        if name in ("issubset", "issuperset", "isdisjoint"):
            return self.call_method(SSetV(c.elem, c.mem), name, args, {}, st, k)
        raise Unsupported(f"set.{name}")

    def subset_method(self, recv: SSubSet, name, args, st, k):
        c = st.cell(recv.ref)
        cur = c.val[recv.key]
        if name in ("add", "discard"):
            new = z3.Store(cur, term_of(args[0]), name == "add")
            return k(SNone(), st.put(recv.ref, DictCell(c.kty, c.vty, c.dom, z3.Store(c.val, recv.key, new))))
        raise Unsupported(f"set.{name} on a set stored in a dict")

    # ---- statements --------------------------------------------------------------------------
    def ex(self, stmts, st: St, k):
        if not stmts:
            return k(st)
        s = stmts[0]
        m = getattr(self, "ex_" + type(s).__name__, None)
        if m is None:
            raise Unsupported(f"statement {type(s).__name__}")
        checks = getattr(self.cur_contract, "checks", None) if self.cur_contract else None
        if checks and not isinstance(s, (ast.For, ast.While, ast.If, ast.Try, ast.FunctionDef)):
            txt = ast.unparse(s)
            if txt in checks:
                def after(st2, _txt=txt):
                    st3 = self.site_check(_txt, checks[_txt], st2)
                    return self.ex(stmts[1:], st3, k)
                self.sites_seen = getattr(self, "sites_seen", set()) | {txt}
                return m(s, st, after)
        return m(s, st, lambda st2: self.ex(stmts[1:], st2, k))

    def site_check(self, txt, expr, st):
        from vf.pyvc.spec import PureEval
        extra = self.ghost_extra() if hasattr(self, "ghost_extra") else {}
        goal = PureEval(self, st, dict(st.env, **extra), old_st=getattr(self, "entry_st", None)).truth(expr)
        self.vc(f"{self.top_name}.after[{txt}]", st, goal, "assertion at a program point")
        return st.assume(goal)            # a cut: proved here, available afterwards

    def ex_Pass(self, s, st, k): return k(st)
    def ex_Global(self, s, st, k): return k(st)
    def ex_Nonlocal(self, s, st, k): return k(st)
    def ex_Import(self, s, st, k): return k(st)
    def ex_ImportFrom(self, s, st, k): return k(st)

    def ex_Expr(self, s, st, k):
        if isinstance(s.value, ast.Constant): return k(st)      # docstring
        return self.ev(s.value, st, lambda v, st2: k(st2))

    def ex_Return(self, s, st, k):
        if s.value is None: return st.fr.on_return(SNone(), st)
        return self.ev(s.value, st, lambda v, st2: st2.fr.on_return(v, st2))

    def ex_Raise(self, s, st, k):
        e = s.exc
        name = None
        if isinstance(e, ast.Call) and isinstance(e.func, ast.Name): name = e.func.id
        elif isinstance(e, ast.Name): name = e.id
        if name is None: raise Unsupported("raise of a computed exception")
        return self.raise_(name, st)

    def ex_Assert(self, s, st, k):
        return self.ev(s.test, st, lambda c, st2: self.branch(
            ops.truth(st2, c), st2, k, lambda s3: self.raise_("AssertionError", s3)))

    def ex_If(self, s, st, k):
        return self.ev(s.test, st, lambda c, st2: self.branch(
            ops.truth(st2, c), st2, lambda s3: self.ex(s.body, s3, k), lambda s3: self.ex(s.orelse, s3, k)))

    def ex_AnnAssign(self, s, st, k):
        if s.value is None: return k(st)
        return self.ev(s.value, st, lambda v, st2: self.assign(s.target, v, st2, k))

    def ex_Assign(self, s, st, k):
        if (len(s.targets) == 1 and isinstance(s.targets[0], ast.Tuple) and isinstance(s.value, ast.Tuple)
                and len(s.targets[0].elts) == len(s.value.elts)):
            # a, b = x, y  (all right-hand sides are evaluated first)
            def all_vals(vals, st2):
                def go(i, st3):
                    if i == len(vals): return k(st3)
                    return self.assign(s.targets[0].elts[i], vals[i], st3, lambda st4: go(i + 1, st4))
                return go(0, st2)
            return self.evs(s.value.elts, st, all_vals)
        def got(v, st2):
            def go(ts, st3):
                if not ts: return k(st3)
                return self.assign(ts[0], v, st3, lambda st4: go(ts[1:], st4))
            return go(s.targets, st2)
        return self.ev(s.value, st, got)

    def ex_AugAssign(self, s, st, k):
        load = ast.copy_location(ast.BinOp(self.as_load(s.target), s.op, s.value), s)
        return self.ev(load, st, lambda v, st2: self.assign(s.target, v, st2, k))

    def as_load(self, t):
        t2 = ast.parse(ast.unparse(t), mode="eval").body
        return t2

    def materialise(self, v, st, hint=None):
        """Turn placeholder values ({} / set() / [] of unknown type) into heap cells once the type is known."""
        if isinstance(v, SClosure) and v.kind in ("emptydict", "emptyset", "emptylist") and hint == "opaque":
            return SOpaqueObj("container"), st
        if isinstance(v, SClosure) and v.kind in ("emptydict", "emptyset") and hint:
            ty = S.parse_type(hint)
            r = new_ref()
            if ty[0] == "dict":
                ks, vs = S.sort_of(ty[1]), S.sort_of(ty[2])
                cell = DictCell(ty[1], ty[2], z3.K(ks, z3.BoolVal(False)), z3.K(ks, S.dflt(vs)))
            else:
                cell = SetCell(ty[1], z3.K(S.sort_of(ty[1]), z3.BoolVal(False)))
            return SRef(ty, r), st.put(r, cell)
        if isinstance(v, SClosure) and v.kind == "emptylist" and hint:
            ty = S.parse_type(hint)
            e = ops.empty_seq(ty[1])
            if ty[0] == "seq": return e, st
            r = new_ref()
            return SRef(ty, r), st.put(r, ListCell(ty[1], e.n, e.arr))
        if isinstance(v, EmptySeq) and hint:
            ty = S.parse_type(hint)
            return ops.empty_seq(ty[1]), st
        return v, st

    def assign(self, t, v, st, k):
        if isinstance(t, ast.Name):
            hint = self.local_hint(t.id, st)
            v, st = self.materialise(v, st, hint)
            return k(st.bind(t.id, v))
        if isinstance(t, ast.Attribute):
            def got(o, st2):
                if isinstance(o, SRef) and isinstance(st2.cell(o.ref), ObjCell):
                    c = st2.cell(o.ref)
                    cls = RESOLVE_AS.get(c.cls, c.cls)
                    sett = self.P.find_setter(cls, t.attr)
                    if sett:
                        return self.call_user(f"fggs.{self.P.classes[sett[0]].module}.{sett[0]}.{t.attr}.setter",
                                              sett[1], [o, v], {}, st2, lambda _, st3: k(st3), owner=sett[0])
                    hint = CLASS_FIELDS.get(c.cls, {}).get(t.attr)
                    if hint is None: raise Unsupported(f"assignment to undeclared field {c.cls}.{t.attr}")
                    v2, st3 = self.materialise(v, st2, hint)
                    v2 = self.coerce(v2, S.parse_type(hint), st3)
                    f = dict(c.fields); f[t.attr] = v2
                    return k(st3.put(o.ref, ObjCell(c.cls, f)))
                if isinstance(o, SOpaqueObj):
                    return k(st2)               # state of unmodelled objects is not tracked
                raise Unsupported(f"attribute assignment on {o}")
            return self.ev(t.value, st, got)
        if isinstance(t, ast.Subscript):
            def got(vals, st2):
                o, i = vals
                if isinstance(o, SSubSet):         # g[x][y] = None  on a dict of dicts-used-as-sets: add y to g[x]
                    return self.subset_method(o, "add", [i], st2, lambda _, st3: k(st3))
                if isinstance(o, SRef) and isinstance(st2.cell(o.ref), SetCell) and isinstance(v, SNone):
                    return self.set_method(o, st2.cell(o.ref), "add", [i], st2, lambda _, st3: k(st3))   # d[x] = None on a dict used as a set
                if isinstance(o, SRef):
                    c = st2.cell(o.ref)
                    if isinstance(c, DictCell):
                        kt = ops.key_term(c.kty, i)
                        if kt is None: raise Unsupported(f"dict key of another type: {i}")
                        if isinstance(c.vty, tuple) and c.vty[0] == "set":
                            sv = self.to_setv(self.materialise(v, st2, "set[%s]" % c.vty[1])[0], st2) \
                                if not (isinstance(v, SClosure) and v.kind == "emptyset") else \
                                SSetV(c.vty[1], z3.K(S.sort_of(c.vty[1]), z3.BoolVal(False)))
                            vt = sv.mem
                        else:
                            vt = term_of(self.coerce(v, c.vty, st2))
                        return k(st2.put(o.ref, DictCell(c.kty, c.vty, z3.Store(c.dom, kt, True), z3.Store(c.val, kt, vt))))
                if isinstance(o, SOpaqueObj): return k(st2)
                raise Unsupported(f"subscript assignment on {o}")
            return self.evs([t.value, t.slice], st, got)
        if isinstance(t, (ast.Tuple, ast.List)) and isinstance(v, SOpaqueObj):
            def go3(i, st2):
                if i == len(t.elts): return k(st2)
                return self.assign(t.elts[i], SOpaqueObj(f"{v.name}[{i}]"), st2, lambda st3: go3(i + 1, st3))
            return go3(0, st)
        if isinstance(t, (ast.Tuple, ast.List)) and isinstance(v, STuple):
            if len(v.items) != len(t.elts): return self.raise_("ValueError", st)
            def go2(i, st2):
                if i == len(t.elts): return k(st2)
                return self.assign(t.elts[i], v.items[i], st2, lambda st3: go2(i + 1, st3))
            return go2(0, st)
        if isinstance(t, (ast.Tuple, ast.List)):
            sq = ops.as_seq(st, v)
            st = st.assume(sq.n == len(t.elts))
            def go(i, st2):
                if i == len(t.elts): return k(st2)
                return self.assign(t.elts[i], S.wrap(sq.elem, sq.arr[i]), st2, lambda st3: go(i + 1, st3))
            return go(0, st)
        raise Unsupported(f"assignment target {ast.unparse(t)}")

    def coerce(self, v, ty, st):
        if isinstance(ty, tuple) and ty[0] == "seq":
            if isinstance(v, SClosure) and v.kind == "emptylist": return ops.empty_seq(ty[1])
            if isinstance(v, EmptySeq): return ops.empty_seq(ty[1])
            sq = ops.as_seq(st, v)
            if sq.elem != ty[1]: raise Unsupported(f"sequence of {sq.elem} where {ty[1]} expected")
            return sq
        if ty == "Id": return self.to_id(v)
        if ty == "PyVal":
            if isinstance(v, SPrim) and v.ty == "PyVal": return v
            if isinstance(v, SPrim) and v.ty == "str": return SPrim("PyVal", S.pv_of_str(v.t))
            return SPrim("PyVal", S.fresh("pv", S.PyVal))          # any other Python value: an unknown one
        if isinstance(ty, tuple) and ty[0] in ("dict", "obj", "list", "set"):
            if isinstance(v, SRef): return v
            raise Unsupported(f"{v} where {ty} expected")
        if isinstance(v, SPrim) and v.ty == ty: return v
        raise Unsupported(f"{v} where {ty} expected")

    def local_hint(self, name, st):
        q = getattr(st.fr, "qual", None)
        c = self.spec.contracts.get(q) if (self.spec is not None and q) else None
        return (c.locals or {}).get(name) if c else None

    def ex_Delete(self, s, st, k):
        if len(s.targets) != 1 or not isinstance(s.targets[0], ast.Subscript):
            raise Unsupported("del of a non-subscript")
        t = s.targets[0]
        def got(vals, st2):
            o, i = vals
            c = st2.cell(o.ref) if isinstance(o, SRef) else None
            if isinstance(c, DictCell):
                kt = ops.key_term(c.kty, i)
                if kt is None: return self.raise_("KeyError", st2)
                return self.branch(c.dom[kt], st2,
                                   lambda s3: k(s3.put(o.ref, DictCell(c.kty, c.vty, z3.Store(c.dom, kt, False), c.val))),
                                   lambda s3: self.raise_("KeyError", s3))
            raise Unsupported("del on a non-dict")
        return self.evs([t.value, t.slice], st, got)

    def ex_Try(self, s, st, k):
        if s.finalbody or s.orelse: raise Unsupported("try/finally, try/else")
        fr = st.fr
        def on_raise(exc, st2):
            for h in s.handlers:
                names = []
                if h.type is None: names = None
                elif isinstance(h.type, ast.Name): names = [h.type.id]
                elif isinstance(h.type, ast.Tuple): names = [x.id for x in h.type.elts]
                if names is None or exc in names or "Exception" in names:
                    st3 = st2.but(fr=fr)
                    if h.name: st3 = st3.bind(h.name, SOpaqueObj("exception"))
                    return self.ex(h.body, st3, k)
            return fr.on_raise(exc, st2.but(fr=fr))
        tfr = Frame(fr.on_return, on_raise, fr.parent, fr.name)
        for a in ("fn", "qual", "entry_st"):
            setattr(tfr, a, getattr(fr, a, None))
        tfr.loops = fr.loops
        return self.ex(s.body, st.but(fr=tfr), lambda st2: k(st2.but(fr=fr)))

    def ex_Break(self, s, st, k): return st.fr.loops[-1][0](st)
    def ex_Continue(self, s, st, k): return st.fr.loops[-1][1](st)

    def ex_FunctionDef(self, s, st, k):
        outer = getattr(st.fr, "qual", None) or "?"
        return k(st.bind(s.name, SClosure("local", f"{outer}.{s.name}", recv=s)))

    # loops are in loops.py (mixed in by Verifier)


class Retired:
    """heap cell of an object that was moved into a container by value"""


class SIter(SV):
    def __init__(self, kind, args):
        self.kind, self.args, self.ty = kind, args, "iter"
