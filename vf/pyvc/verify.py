"""VC generation for one function against its sidecar contract, and discharge."""
from __future__ import annotations
import ast, time, z3
from typing import Any, Dict, List, Optional
from vf import core, prover
from vf.core import Obligation, PROVED, FAILED_NO_INPUT, UNDECIDED
from vf.pyvc import sorts as S
from vf.pyvc.sorts import *
from vf.pyvc.state import *
from vf.pyvc.state import Hyps
from vf.pyvc import ops
from vf.pyvc.ops import B, I
from vf.pyvc.exec import Frame, EmptySeq
from vf.pyvc.exec2 import Executor, SIter
from vf.pyvc.spec import PureEval, Contract, SpecEnv, Entry, havoc_ref, havoc_path
from vf.pyvc.program import Program


PYVC_RLIMIT = 12000000


class OpaqueSeq:
    """elements of an iterable the model does not look into"""
    elem = "opaque"
    def __init__(self, name): self.name = name


class Verifier(Executor):

    def __init__(self, program: Program, spec: SpecEnv):
        super().__init__(program, spec)
        self.top_name = ""
        self.fn_stack: List[ast.FunctionDef] = []
        self.entry_env = None
        patch_frames(self)

    # ---- loops -------------------------------------------------------------------------------
    def loop_info(self, s, st):
        """(invariant expr or None, label) for the loop statement s of the function being executed."""
        fr = st.fr
        fn = getattr(fr, "fn", None)
        qual = getattr(fr, "qual", None)
        if fn is None: return None, "loop"
        loops = [n for n in ast.walk(fn) if isinstance(n, (ast.For, ast.While))]
        loops.sort(key=lambda n: (n.lineno, n.col_offset))
        k = loops.index(s)
        c = self.spec.contracts.get(qual) if qual else None
        inv = c.loops.get(k) if c else None
        short = qual.split("fggs.", 1)[-1] if qual else fn.name
        self._last_loop_k = k
        if short != self.top_name:
            return inv, f"{self.top_name}.inlined[{short}].loop{k}"
        return inv, f"{short}.loop{k}"

    def ghost_extra(self):
        """spec-only bindings available in loop invariants: the entry environment (for param()) and the entry values
        of the variables a nested function re-binds (for old())"""
        out = {"__entry__": Entry(self.entry_env)}
        c = self.cur_contract_top
        if c is not None and c.nonlocals:
            out["__old_prims__"] = {n: self.entry_env[n] for n in c.nonlocals}
        return out

    def ex_For(self, s, st, k):
        def got(it, st2):
            return self.run_for(s, it, st2, k)
        return self.ev(s.iter, st, got)

    def targets_for(self, s, it, st):
        """Resolve the iterable into (St, list of (target, SSeq), n)."""
        if isinstance(it, SOpaqueObj):
            n = S.fresh("n.opaque", z3.IntSort())
            ety = None
            for key, t in (getattr(self.cur_contract, "opaque_elems", None) or {}).items():
                if key in it.name: ety = t
            if ety is not None:
                v, st = fresh_value(st, ("seq", S.parse_type(ety)), "elems")
                return st, [(s.target, v)], v.n
            return st.fact(n >= 0), [(s.target, OpaqueSeq(it.name))], n
        if isinstance(it, SIter):
            if it.kind == "zip":
                seqs = []
                for a in it.args:
                    st, sq = self.iter_seq(a, st); seqs.append(sq)
                n = seqs[0].n
                for sq in seqs[1:]:
                    n = z3.If(sq.n < n, sq.n, n)
                if not isinstance(s.target, ast.Tuple) or len(s.target.elts) != len(seqs):
                    raise Unsupported("zip target")
                return st, list(zip(s.target.elts, seqs)), n
            if it.kind == "enumerate":
                st, sq = self.iter_seq(it.args[0], st)
                idx = SSeq("int", sq.n, z3.Lambda([z3.Int("i!e")], z3.Int("i!e")))
                return st, [(s.target.elts[0], idx), (s.target.elts[1], sq)], sq.n
            if it.kind == "range" and len(it.args) == 1:
                n = it.args[0].t
                n = z3.If(n < 0, 0, n)
                return st, [(s.target, SSeq("int", n, z3.Lambda([z3.Int("i!e")], z3.Int("i!e"))))], n
            if it.kind == "reversed" and isinstance(it.args[0], SOpaqueObj):
                return self.targets_for(s, SOpaqueObj("reversed(" + it.args[0].name + ")"), st)
            if it.kind == "reversed":
                st, sq = self.iter_seq(it.args[0], st)
                j = z3.Int("i!r")
                rev = SSeq(sq.elem, sq.n, z3.Lambda([j], sq.arr[sq.n - 1 - j]))
                return st, [(s.target, rev)], sq.n
            raise Unsupported(f"iteration over {it.kind}")
        st, sq = self.iter_seq(it, st)
        return st, [(s.target, sq)], sq.n

    def havoc_all(self, st: St, only_refs=None, only_names=None) -> St:
        for r, cell in list(st.heap.items()):
            if only_refs is not None and r not in only_refs: continue
            if isinstance(cell, ObjCell):
                fields = dict(cell.fields)
                changed = False
                for fname, fv in cell.fields.items():
                    if not isinstance(fv, SRef):
                        fty = S.parse_type(__import__("vf.pyvc.schema", fromlist=["x"]).CLASS_FIELDS[cell.cls][fname])
                        nv, st = fresh_value(st, fty, f"hv.{fname}")
                        fields[fname] = nv; changed = True
                if changed: st = st.put(r, ObjCell(cell.cls, fields))
            else:
                ty = {DictCell: lambda c: ("dict", c.kty, c.vty), ListCell: lambda c: ("list", c.elem),
                      SetCell: lambda c: ("set", c.elem)}[type(cell)](cell)
                st = havoc_ref(SRef(ty, r), st, f"r{r}")
        env = dict(st.env)
        for n, v in st.env.items():
            if only_names is not None and n not in only_names: continue
            if isinstance(v, (SPrim, SSeq)) and not isinstance(v, EmptySeq):
                nv, st = fresh_value(st, v.ty, "hv." + n)
                env[n] = nv
        st = st.but(env=env)
        if only_refs is None or "alive" in (only_names or ()):
            na = S.fresh("alive", st.alive.sort()); i = z3.Int("i!al")
            st = st.fact(z3.ForAll([i], z3.Implies(st.alive[i], na[i]))).but(alive=na)
        if only_refs is None or "warned" in (only_names or ()):
            st = st.but(warned=z3.Or(st.warned, S.fresh("warned", z3.BoolSort())))
        g = dict(st.ghost)
        for gk in list(g) + [n[6:] for n in (only_names or ()) if n.startswith("ghost:")]:
            if only_names is not None and "ghost:" + gk not in only_names: continue
            if gk.startswith(("count:", "counttrue:")):
                nv = S.fresh("cnt", z3.IntSort())
                st = st.fact(nv >= g.get(gk, z3.IntVal(0)))
                g[gk] = nv
            elif gk.startswith("passed:"):
                g[gk] = z3.And(g.get(gk, z3.BoolVal(True)), S.fresh("passed", z3.BoolSort()))
            else:
                g[gk] = S.fresh("last", z3.BoolSort())
        return st.but(ghost=g)

    def write_set(self, body_runner, st: St):
        """Dry run of one iteration from a fully havoced state: which cells / locals does it write?"""
        st_h = self.havoc_all(st)
        refs, names = set(), set()
        self._new_locals = {}            # names first bound inside the loop body -> a sample value (for its type)
        saved_vcs, saved_paths = len(self.vcs), self.paths
        def end(st2):
            for r, c in st2.heap.items():
                if r in st_h.heap and c is not st_h.heap[r]:
                    if isinstance(c, ObjCell):
                        # only value fields count; a re-bound container field is not supported in loops
                        for f, v in c.fields.items():
                            ov = st_h.heap[r].fields.get(f)
                            if v is not ov:
                                if isinstance(v, SRef): raise Unsupported("loop re-binds a container field")
                                refs.add(r)
                    else:
                        refs.add(r)
            for n, v in st2.env.items():
                if n.startswith(("_i", "_n", "_it")) and n[-1].isdigit(): continue      # ghost loop variables
                if n not in st_h.env or st_h.env[n] is not v:
                    names.add(n)
                if n not in st_h.env and n not in self._new_locals:
                    self._new_locals[n] = v
            if st2.alive is not st_h.alive: names.add("alive")
            if st2.warned is not st_h.warned: names.add("warned")
            for gk, gv in st2.ghost.items():
                if st_h.ghost.get(gk) is not gv: names.add("ghost:" + gk)
        dummy = Frame(lambda v, s: end(s), lambda e, s: end(s), None, "dry")
        dummy.fn, dummy.qual = getattr(st.fr, "fn", None), getattr(st.fr, "qual", None)
        dummy.entry_st = getattr(st.fr, "entry_st", None)
        dummy.loops = [(end, end)]
        body_runner(st_h.but(fr=dummy), end)
        del self.vcs[saved_vcs:]
        self.paths = saved_paths
        return refs, names

    def run_for(self, s, it, st, k):
        inv, label = self.loop_info(s, st)
        st, tsq, n = self.targets_for(s, it, st)
        if any(isinstance(sq, EmptySeq) for _, sq in tsq):
            return self.ex(s.orelse, st, k)          # a literally empty sequence: the body never runs
        if inv is None:
            nn = z3.simplify(n)
            if z3.is_int_value(nn) and nn.as_long() <= 4:
                return self.unroll_for(s, tsq, nn.as_long(), st, k)
            raise Unsupported(f"{label}: loop without an invariant")
        fr = st.fr
        def bind_targets(st2, i):
            def go(ts, st3, kk):
                if not ts: return kk(st3)
                t, sq = ts[0]
                v = SOpaqueObj(sq.name + "[]") if isinstance(sq, OpaqueSeq) else S.wrap(sq.elem, sq.arr[i])
                return self.assign(t, v, st3, lambda st4: go(ts[1:], st4, kk))
            return go
        lk = self._last_loop_k
        ghost = lambda st2, i: dict(st2.env, **{"_i": I(i), "_n": I(n), "_it": tsq[-1][1],
                                                f"_i{lk}": I(i), f"_n{lk}": I(n), f"_it{lk}": tsq[-1][1],
                                                **self.ghost_extra()})
        old_for_inv = getattr(fr, "entry_st", None) or self.entry_st
        def inv_at(st2, i):
            return PureEval(self, st2, ghost(st2, i), old_st=old_for_inv).truth(inv)
        # (1) invariant holds on entry
        self.vc(f"{label}.invariant_on_entry", st, inv_at(st, z3.IntVal(0)))
        # (2) write set by dry run
        i = S.fresh("_i", z3.IntSort())
        def tick(st_x):          # ghost: total number of iterations of this loop started so far (over all its executions)
            g = dict(st_x.ghost); key = f"count:__iter{lk}"
            g[key] = g.get(key, z3.IntVal(0)) + 1
            return st_x.but(ghost=g)
        def body_runner(st_b, end):
            st_b = tick(st_b.assume(z3.And(i >= 0, i < n)))
            st_b = st_b.bind(f"_i{lk}", I(i)).bind(f"_n{lk}", I(n)).bind(f"_it{lk}", tsq[-1][1])
            bind_targets(st_b, i)(tsq, st_b, lambda st_c: self.ex(s.body, st_c, end))
        refs, names = self.write_set(body_runner, st)
        new_locals = dict(self._new_locals)
        names -= {t.id for t, _ in tsq if isinstance(t, ast.Name)}
        # (3) an arbitrary iteration preserves the invariant
        st_h = self.havoc_all(st, only_refs=refs, only_names=names)
        st_i = tick(st_h.assume(z3.And(i >= 0, i < n)).assume(inv_at(st_h, i)))
        st_i = st_i.bind(f"_i{lk}", I(i)).bind(f"_n{lk}", I(n)).bind(f"_it{lk}", tsq[-1][1])
        after: List[St] = []
        def body_end(st2):
            self.vc(f"{label}.invariant_preserved", st2, inv_at(st2, i + 1))
            self.check_iterated_unchanged(s, it, st_i, st2, label)
        loop_fr = Frame(fr.on_return, fr.on_raise, fr.parent, fr.name)
        loop_fr.fn, loop_fr.qual = getattr(fr, "fn", None), getattr(fr, "qual", None)
        loop_fr.entry_st = getattr(fr, "entry_st", None)
        loop_fr.loops = fr.loops + [(lambda st2: after.append(st2), body_end)]
        st_i = st_i.but(fr=loop_fr)
        bind_targets(st_i, i)(tsq, st_i, lambda st_c: self.ex(s.body, st_c, body_end))
        # (4) after the loop: invariant at n (or the state at a `break`)
        st_e = self.havoc_all(st, only_refs=refs, only_names=names)
        st_e = self.bind_loop_locals(st_e, new_locals)
        st_e = st_e.assume(inv_at(st_e, n))
        self.ex(s.orelse, st_e.but(fr=fr), k)          # for-else: only when the loop was not left by break
        for sb in after:
            k(sb.but(fr=fr))

    def bind_loop_locals(self, st, new_locals):
        """Locals first assigned inside a loop body are bound (to unknown values of the observed type) after the loop.
        ASSUMPTION (listed in the evidence): the UnboundLocalError Python raises when such a name is read after zero
        iterations is not modelled."""
        for n, v in new_locals.items():
            if n in st.env or n.startswith("_"): continue
            try:
                if isinstance(v, (SPrim, SSeq)) and getattr(v, "elem", 0) is not None:
                    nv, st = fresh_value(st, v.ty, "ll." + n)
                elif isinstance(v, SOpaqueObj):
                    nv = SOpaqueObj("ll." + n)
                else:
                    continue
            except Exception:
                continue
            st = st.bind(n, nv)
        return st

    def check_iterated_unchanged(self, s, it, st_before, st_after, label):
        """`RuntimeError: dictionary changed size during iteration` must be impossible."""
        if isinstance(it, SSubSet):
            a, b = st_before.cell(it.ref), st_after.cell(it.ref)
            if a is not b:
                self.vc(f"{label}.iterated_set_not_resized", st_after, a.val[it.key] == b.val[it.key])
            return
        ref = it.ref if isinstance(it, (SRef, SDictView)) else None
        if ref is None: return
        a, b = st_before.cell(ref), st_after.cell(ref)
        if a is b: return
        if isinstance(a, DictCell):
            self.vc(f"{label}.iterated_dict_not_resized", st_after, a.dom == b.dom)
        elif isinstance(a, SetCell):
            self.vc(f"{label}.iterated_set_not_resized", st_after, a.mem == b.mem)
        elif isinstance(a, ListCell):
            pass

    def unroll_for(self, s, tsq, n, st, k):
        fr = st.fr
        def it(j, st2):
            if j == n: return self.ex(s.orelse, st2.but(fr=fr), k)
            def go(ts, st3, kk):
                if not ts: return kk(st3)
                t, sq = ts[0]
                return self.assign(t, S.wrap(sq.elem, sq.arr[j]), st3, lambda st4: go(ts[1:], st4, kk))
            lf = Frame(fr.on_return, fr.on_raise, fr.parent, fr.name)
            lf.fn, lf.qual = getattr(fr, "fn", None), getattr(fr, "qual", None)
            lf.entry_st = getattr(fr, "entry_st", None)
            lf.loops = fr.loops + [(lambda st3: k(st3.but(fr=fr)), lambda st3: it(j + 1, st3))]
            return go(tsq, st2.but(fr=lf), lambda st3: self.ex(s.body, st3, lambda st4: it(j + 1, st4)))
        return it(0, st)

    def ex_While(self, s, st, k):
        if s.orelse: raise Unsupported("while-else")
        inv, label = self.loop_info(s, st)
        if inv is None: raise Unsupported(f"{label}: loop without an invariant")
        fr = st.fr
        ghost = lambda st2: dict(st2.env, **self.ghost_extra())
        old_for_inv = getattr(fr, "entry_st", None) or self.entry_st
        inv_at = lambda st2: PureEval(self, st2, ghost(st2), old_st=old_for_inv).truth(inv)
        self.vc(f"{label}.invariant_on_entry", st, inv_at(st))
        def body_runner(st_b, end):
            self.ev(s.test, st_b, lambda c, st_c: self.branch(
                ops.truth(st_c, c), st_c, lambda s3: self.ex(s.body, s3, end), end))
        refs, names = self.write_set(body_runner, st)
        st_h = self.havoc_all(st, only_refs=refs, only_names=names)
        st_i = st_h.assume(inv_at(st_h))
        def body_end(st2):
            self.vc(f"{label}.invariant_preserved", st2, inv_at(st2))
        def exit_(st2):
            return k(st2.but(fr=fr))
        loop_fr = Frame(fr.on_return, fr.on_raise, fr.parent, fr.name)
        loop_fr.fn, loop_fr.qual = getattr(fr, "fn", None), getattr(fr, "qual", None)
        loop_fr.entry_st = getattr(fr, "entry_st", None)
        loop_fr.loops = fr.loops + [(exit_, body_end)]
        st_i = st_i.but(fr=loop_fr)
        self.ev(s.test, st_i, lambda c, st_c: self.branch(
            ops.truth(st_c, c), st_c, lambda s3: self.ex(s.body, s3, body_end), exit_))

    # ---- one function against its contract ------------------------------------------------
    def verify(self, c: Contract):
        """Generate the VCs of contract c; returns list of (name, hyps, goal, note)."""
        found = self.P.lookup(c.qual)
        if found is None:
            raise core.CheckerError(f"contract names {c.qual}, which no longer exists in /repo")
        owner, fn = found
        self.vcs, self.paths = [], 0
        self.cur_contract = c
        self.cur_contract_top = c
        short = c.qual.split("fggs.", 1)[-1]
        self.top_name = short
        st = St()
        env = {}
        for pname, pty in c.sig.items():
            v, st = fresh_value(st, S.parse_type(pty), pname)
            env[pname] = v
        # bind parameters that the signature leaves to their defaults
        a = fn.args
        names = [x.arg for x in a.posonlyargs + a.args] + [x.arg for x in a.kwonlyargs] + \
                ([a.kwarg.arg] if a.kwarg is not None else []) + ([a.vararg.arg] if a.vararg is not None else [])
        defaults = dict(zip([x.arg for x in a.posonlyargs + a.args][len(a.posonlyargs + a.args) - len(a.defaults):], a.defaults))
        defaults.update({x.arg: d for x, d in zip(a.kwonlyargs, a.kw_defaults) if d is not None})
        for nme in names:
            if nme == "self" and fn.name == "__init__" and owner in ("NodeLabel", "EdgeLabel", "Node", "Edge"):
                continue
            if nme not in env:
                if nme in defaults: env[nme] = self.const_default(defaults[nme])
                else: raise core.CheckerError(f"{c.qual}: parameter {nme} missing from sig")
        if owner: env["__class__"] = SClosure("name", owner)
        if c.captures:        # a nested function verified as a unit: it can call itself (through its contract)
            env[fn.name] = SClosure("local", c.qual, recv=fn)
        self.entry_env = dict(env)
        st = st.but(env=env)
        # ids of all objects reachable at entry are alive
        if c.requires is not None:
            st = st.assume(PureEval(self, st, dict(env, __entry__=Entry(env))).truth(c.requires))
        # lemmas: consequences of the precondition, proved once at entry (in order) and available afterwards
        for label, e in (c.lemmas or {}).items():
            goal = PureEval(self, st, dict(env, __entry__=Entry(env)), old_st=st).truth(e)
            self.vc(f"{short}.lemma.{label}", st, goal, "lemma at entry")
            st = st.assume(goal)
        self.entry_st = st
        exits: List[Any] = []
        top = Frame(lambda v, s: exits.append(("return", v, s)), lambda e, s: exits.append((e, None, s)), None, fn.name)
        top.fn, top.qual = fn, c.qual
        top.entry_st = None
        if fn.name == "__init__" and owner in ("NodeLabel", "EdgeLabel", "Node", "Edge"):
            # a frozen dataclass: verify the constructor call  Cls(<params>)  and name its value `result`
            pos = [x.arg for x in a.posonlyargs + a.args if x.arg != "self"]
            kwn = [x.arg for x in a.kwonlyargs]
            self.construct_data(owner, [env[n] for n in pos], {n: env[n] for n in kwn}, st.but(fr=top),
                                lambda v, s: exits.append(("return", v, s)))
        else:
            self.ex(fn.body, st.but(fr=top), lambda s: exits.append(("return", SNone(), s)))
        # exits -> VCs
        for kind, v, s in exits:
            spec_env = dict(self.entry_env)          # parameters denote their entry values (immutable or refs)
            spec_env["__entry__"] = Entry(self.entry_env)
            if c.nonlocals:                          # re-bound variables of the enclosing scope: final value; old() = entry value
                spec_env["__old_prims__"] = {n: self.entry_env[n] for n in c.nonlocals}
                for n in c.nonlocals:
                    spec_env[n] = s.env.get(n, self.entry_env[n])
            pe_old = PureEval(self, self.entry_st, dict(self.entry_env, __entry__=Entry(self.entry_env)), old_st=self.entry_st)
            if kind == "return":
                if isinstance(v, SClosure) and v.kind in ("emptylist", "emptydict", "emptyset") and c.returns:
                    v, s = self.materialise(v, s, c.returns)           # `return []`: typed by the contract's `returns`
                spec_env["result"] = v
                pe = PureEval(self, s, spec_env, old_st=self.entry_st)
                for label, e in c.ensures.items():
                    self.vc(f"{short}.ensures.{label}", s, pe.truth(e))
                for exc, e in c.raises.items():
                    self.vc(f"{short}.raises.{exc}.only_if", s, z3.Not(pe_old.truth(e)),
                            "normal return although the raise condition holds")
            else:
                if kind in c.raises:
                    self.vc(f"{short}.raises.{kind}.if", s, pe_old.truth(c.raises[kind]),
                            f"{kind} raised although its condition does not hold")
                    oe = c.on_raise.get(kind, c.on_raise.get("*"))
                    if oe is not None:
                        pe = PureEval(self, s, spec_env, old_st=self.entry_st)
                        self.vc(f"{short}.on_raise.{kind}", s, pe.truth(oe))
                elif kind in c.may_raise:
                    oe = c.on_raise.get(kind, c.on_raise.get("*"))
                    if oe is not None:
                        pe = PureEval(self, s, spec_env, old_st=self.entry_st)
                        self.vc(f"{short}.on_raise.{kind}", s, pe.truth(oe))
                else:
                    self.vc(f"{short}.no_unexpected_{kind}", s, z3.BoolVal(False), f"path raises undeclared {kind}")
        for txt in (c.checks or {}):
            if txt not in getattr(self, "sites_seen", set()):
                self.vcs.append((f"{short}.after[{txt}]", [], z3.BoolVal(False), "program point not found in the function"))
        # every declared clause must appear at least once (vacuity): add trivial markers
        names_seen = {n for n, _, _, _ in self.vcs}
        for label in c.ensures:
            if f"{short}.ensures.{label}" not in names_seen:
                self.vcs.append((f"{short}.ensures.{label}", [], z3.BoolVal(False), "no normal exit reaches the postcondition"))
        return list(self.vcs), exits



def patch_frames(verifier: Verifier):
    """Frames of inlined calls must know their function (for loop invariants)."""
    P = verifier.P
    fn_qual = {}
    for q, f in P.functions.items():
        fn_qual[id(f)] = ("fggs." + q, f)
    for cname, ci in P.classes.items():
        for mname, f in list(ci.methods.items()) + list(ci.getters.items()):
            fn_qual[id(f)] = (f"fggs.{ci.module}.{cname}.{mname}", f)
        for mname, f in ci.setters.items():
            fn_qual[id(f)] = (f"fggs.{ci.module}.{cname}.{mname}.setter", f)
    verifier.fn_qual = fn_qual


# ---- discharge ------------------------------------------------------------------------------------
def discharge(vcs, program: Program, qual: str, extra_axioms=()) -> List[Obligation]:
    """Group VCs by obligation name; an obligation is proved iff all of its VCs are valid."""
    by_name: Dict[str, List[Any]] = {}
    for name, hyps, goal, note in vcs:
        by_name.setdefault(name, []).append((hyps, goal, note))
    out = []
    axioms = S.lit_axioms() + list(extra_axioms)
    for name, items in by_name.items():
        status, backend, tsum, detail = PROVED, "z3", 0.0, ""
        for hyps, goal, note in items:
            g = z3.simplify(goal)
            if z3.is_true(g):
                continue
            r, t_extra = prove_vc(axioms, hyps, goal)
            tsum += t_extra
            if r.proved:
                if r.backend != "z3": backend = r.backend
                continue
            if r.status == "sat" or z3.is_false(g) and r.status != "unsat":
                status = FAILED_NO_INPUT
            else:
                status = FAILED_NO_INPUT if r.status == "sat" else UNDECIDED
            detail = f"{note + ': ' if note else ''}{r.status} {r.detail[:300]} | goal: {str(goal)[:300]}"
            if status == FAILED_NO_INPUT: break
        out.append(Obligation(name, qual, "vc", status, backend, tsum, program.where(qual), detail, prover.RLIMIT))
    return out


def prove_vc(axioms, hyps, goal):
    """(Result, solver time): the full VC first; if undecided, the same goal under the path condition alone and
    then with the type facts relevant to it (sound: fewer hypotheses).  The full set can drown the instantiation
    engine in type invariants the goal does not touch."""
    # an unreachability goal (False): refute the last branch condition from the rest, so that relevance
    # filtering has a goal to start from
    if z3.is_false(goal) and len(hyps) > getattr(hyps, "nfacts", 0) + 1:
        nf0 = getattr(hyps, "nfacts", 0)
        goal = z3.Not(hyps[-1])
        h2 = Hyps(list(hyps[:-1])); h2.nfacts = nf0
        hyps = h2
    # syntactic discharge: the (simplified) goal is literally one of the hypotheses' conjuncts
    gs = z3.simplify(goal)
    have = set()
    todo = [z3.simplify(h) if not z3.is_quantifier(h) else h for h in hyps]
    while todo:
        h = todo.pop()
        if z3.is_and(h): todo.extend(h.children())
        else: have.add(h.get_id())
    gl = gs.children() if z3.is_and(gs) else [gs]
    if all(g.get_id() in have or z3.is_true(g) for g in gl):
        return prover.Result("unsat", "syntactic", 0.0), 0.0
    # an existential goal: try the obvious witnesses first (keys written by Store terms of the goal) -- any instance
    # that is provable proves the goal
    if z3.is_quantifier(goal) and goal.is_exists() and goal.num_vars() == 1:
        vs_sort = goal.var_sort(0)
        cands, todo, seen = [], [goal.body()], set()
        while todo and len(cands) < 6:
            x = todo.pop()
            if x.get_id() in seen: continue
            seen.add(x.get_id())
            if z3.is_app(x):
                if x.decl().kind() == z3.Z3_OP_STORE and x.arg(1).sort() == vs_sort and not _has_var(x.arg(1)):
                    if all(not z3.eq(x.arg(1), c) for c in cands): cands.append(x.arg(1))
                todo.extend(x.children())
        for c in cands:
            inst = z3.substitute_vars(goal.body(), c)
            r, t0 = prove_vc(axioms, hyps, inst)
            if r.proved:
                return r, t0
    axioms = list(axioms) + S.lifted_axioms_for(list(hyps) + [goal])
    # small, goal-directed hypothesis sets first (sound: fewer hypotheses); the full VC last.  The full set can
    # drown the instantiation engine in type invariants and stale path conditions the goal does not touch.
    nf = getattr(hyps, "nfacts", 0)
    pcs = list(hyps[nf:])
    tiers = [relevant_hyps(list(hyps), goal, 0), relevant_hyps(list(hyps), goal, 1)]
    if nf: tiers.append(pcs)
    tiers.append(relevant_hyps(list(hyps), goal, 2))
    t, tried, last = 0.0, set(), None
    r0 = prover.check_valid(axioms + list(hyps), goal, rlimit=PYVC_RLIMIT // 8, use_cvc5=False)     # a quick try of the whole VC
    t += r0.time_s
    if r0.proved or r0.status == "sat":
        return r0, t
    for sub in tiers:
        key = tuple(sorted(h.get_id() for h in sub))
        if len(sub) == len(hyps) or key in tried: continue
        tried.add(key)
        r2 = prover.check_valid(axioms + sub, goal, rlimit=PYVC_RLIMIT // 3, use_cvc5=False)
        t += r2.time_s
        if r2.proved:
            return r2, t
    r = prover.check_valid(axioms + list(hyps), goal, rlimit=PYVC_RLIMIT, cvc5_timeout_s=10)
    t += r.time_s
    if not r.proved and r.status != "sat":
        # last resort: other random seeds of the SMT core on the most promising hypothesis sets (sound: same query)
        for seed in (1, 2, 3):
            for sub in (tiers[0], list(hyps)):
                r2 = prover.check_valid(axioms + sub, goal, rlimit=PYVC_RLIMIT // 3, use_cvc5=False, seed=seed)
                t += r2.time_s
                if r2.proved:
                    return r2, t
    return r, t


def _has_var(e):
    todo, seen = [e], set()
    while todo:
        x = todo.pop()
        if x.get_id() in seen: continue
        seen.add(x.get_id())
        if z3.is_var(x): return True
        if z3.is_app(x): todo.extend(x.children())
        elif z3.is_quantifier(x): pass        # bound variables inside a closed lambda are fine
    return False


def _symbols(e, cache):
    """names of the uninterpreted constants / functions occurring in e"""
    key = e.get_id()
    if key in cache: return cache[key]
    out = set()
    todo, seen = [e], set()
    while todo:
        x = todo.pop()
        if x.get_id() in seen: continue
        seen.add(x.get_id())
        if z3.is_quantifier(x):
            todo.append(x.body()); continue
        if z3.is_app(x):
            d = x.decl()
            if d.kind() == z3.Z3_OP_UNINTERPRETED and not d.name().startswith(("dflt_", "str:", "card<")):
                out.add(d.name())
            todo.extend(x.children())
    cache[key] = out
    return out


def relevant_hyps(hyps, goal, depth):
    """Hypotheses connected to the goal through shared symbols, `depth` rounds of closure."""
    cache = {}
    syms = set(_symbols(goal, cache))
    hs = [(h, _symbols(h, cache)) for h in hyps]
    chosen = [False] * len(hs)
    for _ in range(depth + 1):
        new = set()
        for i, (h, sy) in enumerate(hs):
            if not chosen[i] and (sy & syms or not sy):
                chosen[i] = True
                new |= sy
        if not new - syms: break
        syms |= new
    return [h for (h, _), c in zip(hs, chosen) if c]


def _verify_one(args):
    contract_files, qual, repo, shard, nshards = args
    from vf.pyvc.spec import load_contracts
    P = Program(repo=repo)
    spec = load_contracts(contract_files)
    c = spec.contracts[qual]
    t0 = time.time()
    v = Verifier(P, spec)
    try:
        vcs, exits = v.verify(c)
    except Unsupported as e:
        return [Obligation(qual.split("fggs.", 1)[-1] + ".in_subset", qual, "vc", UNDECIDED, "pyvc",
                           time.time() - t0, P.where(qual), f"outside the supported subset: {e}")]
    except core.CheckerError as e:
        return ("error", str(e))
    except RecursionError as e:
        return [Obligation(qual.split("fggs.", 1)[-1] + ".in_subset", qual, "vc", UNDECIDED, "pyvc",
                           time.time() - t0, P.where(qual), f"outside the supported subset: recursion limit of the executor ({e})")]
    except Exception as e:      # the executor met a construct it mishandles: undecided, never a violation
        import traceback
        tb = traceback.extract_tb(e.__traceback__)[-1]
        return [Obligation(qual.split("fggs.", 1)[-1] + ".in_subset", qual, "vc", UNDECIDED, "pyvc",
                           time.time() - t0, P.where(qual),
                           f"outside the supported subset: executor exception {type(e).__name__}: {e} ({tb.filename.split('/')[-1]}:{tb.lineno})")]
    if not vcs:
        return ("error", f"{qual}: zero verification conditions generated")
    if nshards > 1:
        names = list(dict.fromkeys(n for n, _, _, _ in vcs))
        mine = {n for i, n in enumerate(names) if i % nshards == shard}
        vcs = [x for x in vcs if x[0] in mine]
        if shard != 0:
            return discharge(vcs, P, qual)
    # vacuity guards: the precondition (with the type invariants) must not be contradictory, and at
    # least one exit must be reachable under a non-contradictory path condition
    axioms = S.lit_axioms()
    r0 = prover.check_valid(axioms + v.entry_st.hyps(), z3.BoolVal(False), rlimit=400000, use_cvc5=False)
    if r0.status == "unsat":
        return ("error", f"{qual}: precondition is contradictory (vacuous contract)")
    ordered = [e for e in exits if e[0] == "return"] + [e for e in exits if e[0] != "return"]
    if exits and all(prover.check_valid(axioms + s.hyps(), z3.BoolVal(False), rlimit=400000,
                                        use_cvc5=False).status == "unsat" for _, _, s in ordered[:4]):
        return ("error", f"{qual}: every explored exit has a contradictory path condition")
    return discharge(vcs, P, qual)


def verify_contracts(contract_files, only=None, program: Program = None, jobs: int = 16, prop: str = None):
    """Verify every contract in the given sidecar files (one worker process per contract):
    returns (obligations, functions under contract)."""
    import multiprocessing as mp
    from vf.pyvc.spec import load_contracts
    from vf.pyvc.schema import check_schema
    P = program or Program()
    probs = check_schema(P)
    if probs:
        raise core.CheckerError("class schema is stale: " + "; ".join(probs))
    spec = load_contracts(contract_files)
    quals = [q for q, c in spec.contracts.items()
             if (not only or only in q) and (prop is None or prop in c.properties) and not c.assumed]
    for q in quals:
        if P.lookup(q) is None:
            raise core.CheckerError(f"contract names {q}, which no longer exists in /repo")
    # the VCs of one function are discharged by several workers (each regenerates the VCs -- cheap -- and takes
    # every n-th obligation), so that one function with heavy obligations does not serialise the run
    shards = {q: spec.contracts[q].shards for q in quals}      # (not a function of `jobs`: the verdicts must not depend on it)
    work = [(list(contract_files), q, P.repo, k, shards[q]) for q in quals for k in range(shards[q])]
    if work:
        # one fresh process per work item (maxtasksperchild=1): the solver's verdict on a hard VC depends on the names /
        # ids of the terms, hence on what the process did before; a fresh fork of the parent makes every item start
        # from the same state whatever else is verified in this run and however the items are scheduled
        with mp.get_context("fork").Pool(max(1, min(jobs, len(work))), maxtasksperchild=1) as pool:
            results = pool.map(_verify_one, work, chunksize=1)
    else:
        results = []
    obligations: List[Obligation] = []
    seen_subset = set()
    for w, r in zip(work, results):
        if isinstance(r, tuple) and r[0] == "error":
            raise core.CheckerError(r[1])
        for o in r:
            if o.name.endswith(".in_subset"):
                if o.name in seen_subset: continue
                seen_subset.add(o.name)
            obligations.append(o)
    return obligations, quals
