"""Forward symbolic execution of the real function bodies (continuation-passing, path splitting).

ev(expr, st, k)   evaluates an expression; k(value, st) is called once per feasible outcome
ex(stmts, st, k)  executes statements; k(st) is called once per normal completion
Function exits (return / raise) go to the continuations stored in the current frame st.fr.
"""
from __future__ import annotations
import ast, z3
from typing import Any, Callable, Dict, List, Optional
from vf.pyvc import sorts as S
from vf.pyvc.sorts import *
from vf.pyvc.state import *
from vf.pyvc import ops
from vf.pyvc.ops import B, I
from vf.pyvc.schema import CLASS_FIELDS, RESOLVE_AS

MAX_PATHS = 4000
DATA_CLASSES = ("NodeLabel", "EdgeLabel", "Node", "Edge")


class Frame:
    def __init__(self, on_return, on_raise, parent=None, name=""):
        self.on_return, self.on_raise, self.parent, self.name = on_return, on_raise, parent, name
        self.loops: List[Any] = []      # stack of (on_break, on_continue)


class Exec:
    def __init__(self, program, spec=None):
        self.P = program
        self.spec = spec                # SpecEnv: contracts, spec functions (for loop invariants / modular calls)
        self.vcs: List[Any] = []        # (name, hyps, goal, note)
        self.paths = 0
        self.depth = 0
        self.cur_contract = None
        self.loop_counter = {}          # FunctionDef -> ordinal map

    # ---- utilities -------------------------------------------------------------------------
    def vc(self, name, st: St, goal, note=""):
        # one solver query per top-level conjunct (small queries are the stable ones)
        hyps = st.hyps()
        stack = [goal]
        while stack:
            g = stack.pop()
            if z3.is_eq(g) and g.arg(0).sort() == z3.BoolSort():      # True == X  /  False == X
                a, b = g.arg(0), g.arg(1)
                if z3.is_true(a): g = b
                elif z3.is_true(b): g = a
                elif z3.is_false(a): g = z3.Not(b)
                elif z3.is_false(b): g = z3.Not(a)
            if z3.is_and(g):
                stack.extend(g.children())
            else:
                self.vcs.append((name, hyps, g, note))

    def branch(self, c, st: St, kt, kf):
        c = z3.simplify(c)
        if z3.is_true(c): return kt(st)
        if z3.is_false(c): return kf(st)
        nc = z3.simplify(z3.Not(c))
        for p in st.pc:                      # cheap pruning of syntactically decided branches
            if z3.eq(p, c): return kt(st)
            if z3.eq(p, nc): return kf(st)
        self.paths += 1
        if self.paths > MAX_PATHS:
            raise Unsupported("path explosion")
        kt(st.assume(c))
        kf(st.assume(z3.Not(c)))

    def raise_(self, exc: str, st: St):
        st.fr.on_raise(exc, st)

    def evs(self, es, st, k, acc=None):
        """evaluate a list of expressions left to right"""
        acc = acc or []
        if not es:
            return k(acc, st)
        self.ev(es[0], st, lambda v, st2: self.evs(es[1:], st2, k, acc + [v]))

    # ---- expressions -----------------------------------------------------------------------
    def ev(self, e, st: St, k):
        m = getattr(self, "ev_" + type(e).__name__, None)
        if m is None:
            raise Unsupported(f"expression {type(e).__name__}: {ast.unparse(e)[:60]}")
        return m(e, st, k)

    def ev_Constant(self, e, st, k):
        v = e.value
        if v is None: return k(SNone(), st)
        if isinstance(v, bool): return k(B(v), st)
        if isinstance(v, int): return k(I(v), st)
        if isinstance(v, str): return k(SPrim("str", S.str_lit(v)), st)
        if isinstance(v, float): return k(SOpaqueObj(f"float {v}"), st)
        raise Unsupported(f"constant {v!r}")

    def ev_JoinedStr(self, e, st, k):
        # f-strings build messages / names; model: an uninterpreted (hence deterministic) function of the pieces
        parts = [v.value for v in e.values if isinstance(v, ast.FormattedValue)]
        def simple(x):
            return isinstance(x, (ast.Name, ast.Constant)) or isinstance(x, ast.Attribute) and simple(x.value)
        if not all(simple(x) for x in parts):
            return k(SOpaque("fstring"), st)
        lits = "|".join(v.value if isinstance(v, ast.Constant) else "{}" for v in e.values)
        def done(vals, st2):
            terms = []
            for v in vals:
                if isinstance(v, SPrim) and v.ty in ("str", "int"):
                    terms.append(v.t)
                else:
                    return k(SOpaque("fstring"), st2)
            f = z3.Function("fmt:" + lits, *[t.sort() for t in terms], S.Str) if terms else None
            return k(SPrim("str", f(*terms) if f is not None else S.str_lit(lits)), st2)
        return self.evs(parts, st, done)

    def ev_Name(self, e, st, k):
        if e.id in st.env: return k(st.env[e.id], st)
        if e.id in ("True", "False"): return k(B(e.id == "True"), st)
        if e.id in self.P.classes or e.id in ("dict", "set", "list", "tuple", "len", "isinstance", "zip",
                                              "enumerate", "range", "reversed", "all", "any", "sorted",
                                              "min", "max", "str", "iter", "_id", "id", "Exception", "ValueError",
                                              "TypeError", "KeyError", "frozenset", "object", "cast", "sum", "Sequence", "type", "super", "print", "stderr"):
            return k(SClosure("name", e.id), st)
        if e.id in self.P.func_module:
            return k(SClosure("func", f"{self.P.func_module[e.id]}.{e.id}"), st)
        if e.id in ("fggs", "utils", "copy", "itertools", "warnings", "torch"):
            return k(SClosure("module", e.id), st)
        if e.id in ("inf", "nan"):                     # from math import inf, nan: floats are not modelled
            return k(SOpaqueObj("float " + e.id), st)
        raise Unsupported(f"unbound name {e.id}")

    def ev_Tuple(self, e, st, k):
        def done(vals, st2):
            tys = {str(getattr(v, "ty", None)) for v in vals}
            if vals and (len(tys) > 1 or any(isinstance(v, (SRef, SOpaqueObj, STuple, SClosure)) for v in vals)):
                return k(STuple(list(vals)), st2)
            return k(self.mk_seq(vals, st2), st2)
        return self.evs(e.elts, st, done)

    def ev_List(self, e, st, k):
        if not e.elts:
            return k(SClosure("emptylist", "[]"), st)
        def done(vals, st2):
            sq = self.mk_seq(vals, st2)
            r = new_ref()
            return k(SRef(("list", sq.elem), r), st2.put(r, ListCell(sq.elem, sq.n, sq.arr)))
        return self.evs(e.elts, st, done)

    def ev_Set(self, e, st, k):
        def done(vals, st2):
            if not vals or isinstance(vals[0], SRef): raise Unsupported("set display")
            ty = vals[0].ty
            mem = z3.K(S.sort_of(ty), z3.BoolVal(False))
            for v in vals:
                mem = z3.Store(mem, term_of(v), True)
            r = new_ref()
            return k(SRef(("set", ty), r), st2.put(r, SetCell(ty, mem)))
        return self.evs(e.elts, st, done)

    def ev_Dict(self, e, st, k):
        if e.keys: raise Unsupported("non-empty dict display")
        return k(SClosure("emptydict", "{}"), st)

    def mk_seq(self, vals, st, elem_ty=None) -> SSeq:
        if not vals:
            return SSeq(elem_ty or "Node", z3.IntVal(0), z3.K(z3.IntSort(), S.dflt(S.sort_of(elem_ty or "Node")))) \
                if elem_ty else EmptySeq()
        ty = vals[0].ty if not isinstance(vals[0], SRef) else None
        if ty is None: raise Unsupported("sequence of mutable objects")
        sq = ops.empty_seq(ty)
        for v in vals:
            if v.ty != ty: raise Unsupported("heterogeneous tuple")
            sq = ops.seq_append(sq, term_of(v))
        return sq

    def ev_Attribute(self, e, st, k):
        def got(o, st2):
            return self.getattr(o, e.attr, st2, k)
        return self.ev(e.value, st, got)

    def getattr(self, o: SV, name: str, st: St, k):
        if isinstance(o, SPrim) and o.ty == "str":
            return k(SClosure("method", name, recv=o), st)
        if isinstance(o, SOpaqueObj):
            return k(SOpaqueObj(f"{o.name}.{name}", t=S.obj_fn("attr." + name, S.Obj, S.Obj)(o.ident())), st)
        if isinstance(o, SPrim) and (o.ty, name) in S.OPAQUE_ATTRS:
            ty, f = S.OPAQUE_ATTRS[(o.ty, name)]
            return k(S.wrap(ty, f(o.t)), st)
        if isinstance(o, SPrim) and (o.ty, name) in S.OPAQUE_METHODS:
            return k(SClosure("method", name, recv=o), st)
        if isinstance(o, SPrim) and o.ty in S.DATA_FIELDS:
            try:
                fieldval = ops.data_field(o, name)
            except KeyError:
                fieldval = None
            if fieldval is not None:
                return k(fieldval, st)
            if True:
                g = self.P.find_getter(o.ty, name)
                if g: return self.call_function(g[1], [o], {}, st, k, owner=o.ty)
                m = self.P.find_method(o.ty, name)
                if m: return k(SClosure("method", name, recv=o), st)
                raise Unsupported(f"{o.ty}.{name}")
        if isinstance(o, SRef):
            c = st.cell(o.ref)
            if isinstance(c, ObjCell):
                if name in c.fields: return k(c.fields[name], st)
                cls = RESOLVE_AS.get(c.cls, c.cls)
                g = self.P.find_getter(cls, name)
                if g: return self.call_function(g[1], [o], {}, st, k, owner=cls)
                if self.P.find_method(cls, name): return k(SClosure("method", name, recv=o), st)
                if name == "keys" and self.P.find_method(cls, "__iter__"):       # inherited from collections.abc.Mapping
                    return k(SClosure("method", name, recv=o), st)
                raise Unsupported(f"attribute {c.cls}.{name}")
            return k(SClosure("method", name, recv=o), st)        # dict / list / set methods
        if isinstance(o, (SSeq, SSetV, SDictView, SSubSet, SDictV)):
            return k(SClosure("method", name, recv=o), st)
        if isinstance(o, SClosure) and o.kind == "module":
            if name in self.P.classes: return k(SClosure("name", name), st)
            if o.name in ("utils", "fggs") and name in self.P.func_module:
                return k(SClosure("func", f"{self.P.func_module[name]}.{name}"), st)
            return k(SClosure("modattr", f"{o.name}.{name}"), st)
        if isinstance(o, SClosure) and o.kind == "name" and o.name == "object" and name == "__setattr__":
            return k(SClosure("setattr", "object.__setattr__"), st)
        if isinstance(o, SClosure) and o.kind == "name" and o.name in self.P.classes:
            m = self.P.find_method(o.name, name)
            if m: return k(SClosure("unbound", name, recv=o.name), st)
        if isinstance(o, SClosure) and o.kind == "super":
            mro = self.P.mro(o.recv[0])
            after = mro[mro.index(o.name) + 1:] if o.name in mro else []
            for c in after:
                ci = self.P.classes.get(c)
                if ci and name in ci.methods:
                    return k(SClosure("boundfn", name, recv=(ci.methods[name], o.recv[1], c)), st)
            if name == "__init__": return k(SClosure("noop", "object.__init__"), st)
            raise Unsupported(f"super().{name}")
        if isinstance(o, SRecord):
            if name in o.fields: return k(o.fields[name], st)
            g = self.P.find_getter(o.cls, name)
            if g: return self.call_function(g[1], [o], {}, st, k, owner=o.cls)
        raise Unsupported(f"attribute .{name} of {o}")

    def ev_Subscript(self, e, st, k):
        def got(o, st2):
            if isinstance(o, SOpaqueObj):
                if isinstance(e.slice, ast.Constant):
                    key = ast.unparse(e.slice)
                    return k(SOpaqueObj(f"{o.name}[{key}]", t=S.obj_fn("item." + key, S.Obj, S.Obj)(o.ident())), st2)
                return k(SOpaqueObj(f"{o.name}[?]"), st2)
            if isinstance(e.slice, ast.Slice):
                return self.slice(o, e.slice, st2, k)
            return self.ev(e.slice, st2, lambda i, st3: self.index(o, i, st3, k))
        return self.ev(e.value, st, got)

    def index(self, o, i, st, k):
        if isinstance(o, STuple):
            ii = z3.simplify(i.t)
            if not z3.is_int_value(ii): raise Unsupported("symbolic index into a heterogeneous tuple")
            return k(o.items[ii.as_long()], st)
        if isinstance(o, SClosure) and o.kind == "name":      # typing generics: Sequence[Node]
            return k(o, st)
        if isinstance(o, SRef):
            c = st.cell(o.ref)
            if isinstance(c, DictCell):
                kt = ops.key_term(c.kty, i)
                if kt is None: return self.raise_("KeyError", st)
                def ok(st2):
                    if isinstance(c.vty, tuple) and c.vty[0] == "set":
                        return k(SSubSet(o.ref, kt, c.vty[1]), st2)
                    return k(S.wrap(c.vty, c.val[kt]), st2)
                return self.branch(c.dom[kt], st, ok, lambda st2: self.raise_("KeyError", st2))
        try:
            sq = ops.as_seq(st, o)
        except Unsupported:
            raise Unsupported(f"subscript on {o}")
        if not (isinstance(i, SPrim) and i.ty == "int"): raise Unsupported("non-int sequence index")
        def ok(st2):
            j = z3.If(i.t < 0, i.t + sq.n, i.t)       # Python's negative indexing
            return k(S.wrap(sq.elem, sq.arr[j]), st2)
        return self.branch(z3.And(i.t >= -sq.n, i.t < sq.n), st, ok, lambda st2: self.raise_("IndexError", st2))

    def slice(self, o, sl, st, k):
        sq = ops.as_seq(st, o)
        if sl.step is not None: raise Unsupported("slice step")
        def with_bounds(lo, hi, st2):
            clamp = lambda x: z3.If(x < 0, z3.If(x + sq.n < 0, 0, x + sq.n), z3.If(x > sq.n, sq.n, x))
            l = clamp(lo) if lo is not None else z3.IntVal(0)
            h = clamp(hi) if hi is not None else sq.n
            n = z3.simplify(z3.If(h > l, h - l, 0))
            i = z3.Int("i!sl")
            es = S.sort_of(sq.elem)
            # a fresh array constant defined pointwise (not a lambda): usable in triggers
            arr = S.fresh("sl.arr", z3.ArraySort(z3.IntSort(), es))
            st2 = st2.fact(S.seq_norm(n, arr, es))
            st2 = st2.fact(z3.ForAll([i], z3.Implies(z3.And(i >= 0, i < n), arr[i] == sq.arr[i + l]), patterns=[arr[i]]))
            st2 = st2.fact(z3.ForAll([i], z3.Implies(z3.And(i >= l, i < l + n), arr[i - l] == sq.arr[i]), patterns=[sq.arr[i]])
                           if not (z3.is_quantifier(sq.arr) and sq.arr.is_lambda()) else z3.BoolVal(True))
            return k(SSeq(sq.elem, n, arr), st2)
        def lo_done(lo, st2):
            if sl.upper is None: return with_bounds(lo, None, st2)
            return self.ev(sl.upper, st2, lambda hi, st3: with_bounds(lo, hi.t, st3))
        if sl.lower is None: return lo_done(None, st)
        return self.ev(sl.lower, st, lambda lo, st2: lo_done(lo.t, st2))

    def ev_UnaryOp(self, e, st, k):
        def got(v, st2):
            if isinstance(v, SOpaqueObj) and not isinstance(e.op, ast.Not): return k(SOpaqueObj("unop"), st2)
            if isinstance(e.op, ast.Not): return k(B(z3.Not(ops.truth(st2, v))), st2)
            if isinstance(e.op, ast.USub) and isinstance(v, SPrim) and v.ty == "int": return k(I(-v.t), st2)
            raise Unsupported(ast.unparse(e))
        return self.ev(e.operand, st, got)

    def ev_BoolOp(self, e, st, k):
        # short-circuit, value-returning semantics restricted to boolean contexts
        def go(vals, st2, acc):
            if not vals:
                return k(B(acc), st2)
            def got(v, st3):
                t = ops.truth(st3, v)
                if isinstance(e.op, ast.And):
                    return self.branch(t, st3, lambda s: go(vals[1:], s, z3.BoolVal(True)),
                                       lambda s: k(B(False), s))
                return self.branch(t, st3, lambda s: k(B(True), s),
                                   lambda s: go(vals[1:], s, z3.BoolVal(False)))
            return self.ev(vals[0], st2, got)
        return go(e.values, st, z3.BoolVal(isinstance(e.op, ast.And)))

    def ev_IfExp(self, e, st, k):
        return self.ev(e.test, st, lambda c, st2: self.branch(
            ops.truth(st2, c), st2, lambda s: self.ev(e.body, s, k), lambda s: self.ev(e.orelse, s, k)))

    def ev_Compare(self, e, st, k):
        if len(e.ops) != 1:
            # a == b == c
            if len(e.ops) == 2:
                both = ast.BoolOp(ast.And(), [ast.Compare(e.left, [e.ops[0]], [e.comparators[0]]),
                                              ast.Compare(e.comparators[0], [e.ops[1]], [e.comparators[1]])])
                return self.ev(both, st, k)
            raise Unsupported(ast.unparse(e))
        op = e.ops[0]
        def got(vals, st2):
            a, b = vals
            return self.compare(op, a, b, st2, k)
        return self.evs([e.left, e.comparators[0]], st, got)

    def compare(self, op, a, b, st, k):
        if isinstance(op, (ast.Eq, ast.NotEq)) and isinstance(a, SClosure) and isinstance(b, SClosure):
            t = z3.BoolVal((a.kind, a.name) == (b.kind, b.name))
            return k(B(t if isinstance(op, ast.Eq) else z3.Not(t)), st)
        if isinstance(op, (ast.Eq, ast.NotEq)):
            def fin(t, st2):
                return k(B(t if isinstance(op, ast.Eq) else z3.Not(t)), st2)
            return self.eq(a, b, st, fin)
        if isinstance(op, (ast.In, ast.NotIn)):
            t = ops.contains(st, b, a)
            return k(B(t if isinstance(op, ast.In) else z3.Not(t)), st)
        if isinstance(op, (ast.Is, ast.IsNot)):
            if isinstance(a, SRef) and isinstance(b, SRef): t = z3.BoolVal(a.ref == b.ref)
            elif isinstance(a, SNone) or isinstance(b, SNone): t = ops.equal(st, a, b)
            elif isinstance(a, SRef) != isinstance(b, SRef): t = z3.BoolVal(False)
            else:
                # identity of two immutable values: finer than equality (equal values may or may not be the
                # same object), otherwise unconstrained
                t = z3.FreshBool("same_obj")
                st = st.fact(z3.Implies(t, ops.equal(st, a, b)))
            return k(B(t if isinstance(op, ast.Is) else z3.Not(t)), st)
        if isinstance(a, SPrim) and isinstance(b, SPrim) and a.ty == b.ty == "int":
            t = {ast.Lt: a.t < b.t, ast.LtE: a.t <= b.t, ast.Gt: a.t > b.t, ast.GtE: a.t >= b.t}[type(op)]
            return k(B(t), st)
        if isinstance(a, (SOpaqueObj, SOpaque)) or isinstance(b, (SOpaqueObj, SOpaque)):
            return k(B(S.fresh("cmp", z3.BoolSort())), st)          # an ordering test on an unmodelled value: unknown
        raise Unsupported(f"comparison {type(op).__name__} on {a}, {b}")

    def eq(self, a, b, st, k):
        """== with user-defined __eq__ on objects; k(z3 Bool, st)."""
        if isinstance(a, SRef) and isinstance(st.cell(a.ref), ObjCell):
            cls = RESOLVE_AS.get(st.cell(a.ref).cls, st.cell(a.ref).cls)
            m = self.P.find_method(cls, "__eq__")
            if m:
                return self.call_function(m[1], [a, b], {}, st, lambda r, st2: k(ops.truth(st2, r), st2), owner=m[0])
            ci = self.P.classes.get(cls)
            is_dc = ci is not None and any("dataclass" in ast.unparse(d) for d in ci.node.decorator_list)
            if is_dc and isinstance(b, SRef) and isinstance(st.cell(b.ref), ObjCell) and st.cell(b.ref).cls == st.cell(a.ref).cls:
                # @dataclass (eq=True): the generated __eq__ compares the fields pairwise
                fa, fb = st.cell(a.ref).fields, st.cell(b.ref).fields
                names = list(fa)
                def go(i, acc, st2):
                    if i == len(names): return k(z3.And(*acc) if acc else z3.BoolVal(True), st2)
                    return self.eq(fa[names[i]], fb[names[i]], st2, lambda t, st3: go(i + 1, acc + [t], st3))
                return go(0, [], st)
            if is_dc:
                return k(z3.BoolVal(False), st)
            return k(z3.BoolVal(isinstance(b, SRef) and a.ref == b.ref), st)
        if isinstance(b, SRef) and isinstance(st.cell(b.ref), ObjCell):
            return self.eq(b, a, st, k)
        return k(ops.equal(st, a, b), st)

    def ev_Lambda(self, e, st, k):
        return k(SOpaqueObj("lambda"), st)

    def ev_BinOp(self, e, st, k):
        def got(vals, st2):
            a, b = vals
            if isinstance(a, SOpaqueObj) or isinstance(b, SOpaqueObj):
                return k(SOpaqueObj("binop"), st2)
            if isinstance(a, SPrim) and isinstance(b, SPrim) and a.ty == b.ty == "int":
                if isinstance(e.op, ast.Add): return k(I(a.t + b.t), st2)
                if isinstance(e.op, ast.Sub): return k(I(a.t - b.t), st2)
                if isinstance(e.op, ast.Mult): return k(I(a.t * b.t), st2)
            if isinstance(e.op, ast.Add):
                try:
                    sa, sb = ops.as_seq(st2, a), ops.as_seq(st2, b)
                except Unsupported:
                    sa = None
                if sa is not None:            # (the continuation must stay outside the try block)
                    if isinstance(sa, EmptySeq): return k(sb, st2)
                    if isinstance(sb, EmptySeq): return k(sa, st2)
                    res = ops.seq_concat(sa, sb)
                    st2 = ops.seq_setview_facts(st2, res)
                    if isinstance(a, SRef):
                        r = new_ref()
                        return k(SRef(("list", res.elem), r), st2.put(r, ListCell(res.elem, res.n, res.arr, res.setview)))
                    return k(res, st2)
            if isinstance(e.op, (ast.BitOr, ast.Sub, ast.BitAnd)) and not isinstance(a, SPrim):
                try:
                    sa, sb = self.to_setv(a, st2), self.to_setv(b, st2)
                except Unsupported:
                    sa = None
                if sa is not None and S.sort_of(sa.elem) == S.sort_of(sb.elem):
                    x = z3.Const("x!so", S.sort_of(sa.elem))
                    body = {ast.BitOr: z3.Or(sa.mem[x], sb.mem[x]), ast.BitAnd: z3.And(sa.mem[x], sb.mem[x]),
                            ast.Sub: z3.And(sa.mem[x], z3.Not(sb.mem[x]))}[type(e.op)]
                    res = SSetV(sa.elem, z3.Lambda([x], body))
                    if isinstance(a, SRef):      # set op on mutable sets yields a new mutable set
                        r = new_ref()
                        return k(SRef(("set", sa.elem), r), st2.put(r, SetCell(sa.elem, res.mem)))
                    return k(res, st2)
            if isinstance(e.op, ast.Sub) and isinstance(a, (SSetV,)) and isinstance(b, SSetV):
                x = z3.Const("x!sd", S.sort_of(a.elem))
                return k(SSetV(a.elem, z3.Lambda([x], z3.And(a.mem[x], z3.Not(b.mem[x])))), st2)
            raise Unsupported(f"binary op {ast.unparse(e)}")
        return self.evs([e.left, e.right], st, got)

    # comprehension: [f(x) for x in seq] / tuple(f(x) for x in seq) / (f(x) for ...)
    def ev_ListComp(self, e, st, k):
        def got(sq, st2):
            if isinstance(sq, SOpaqueObj): return k(sq, st2)
            r = new_ref()
            return k(SRef(("list", sq.elem), r), st2.put(r, ListCell(sq.elem, sq.n, sq.arr, getattr(sq, "setview", None))))
        return self.comprehension(e, st, got)

    def ev_GeneratorExp(self, e, st, k):
        return self.comprehension(e, st, k)

    def flatten_comp(self, e, st, k):
        """[f(x, y) for x in outer for y in inner(x)]  (two generators, no conditions): a fresh sequence whose element
        set is { f(x, y) | x in outer, y in inner(x) }, stated with two choice functions (outer / inner position of a
        member) instead of existentials.  Order and multiplicity of the result are left unspecified (sound: nothing is
        claimed about them); its length is only known to be >= 0."""
        g0, g1 = e.generators
        if g0.ifs or g1.ifs or not isinstance(g0.target, ast.Name) or not isinstance(g1.target, ast.Name):
            raise Unsupported("nested comprehension form")
        def got(it, st2):
            if isinstance(it, SOpaqueObj):
                return k(SOpaqueObj("comprehension"), st2)
            from vf.pyvc.spec import PureEval
            st3, src = self.iter_seq(it, st2)
            a, b = S.fresh("a!fl", z3.IntSort()), S.fresh("b!fl", z3.IntSort())
            x = S.wrap(src.elem, src.arr[a])
            pe0 = PureEval(self, st3, dict(st3.env, **{g0.target.id: x}), bound=(a,))
            inner = pe0.ev(g1.iter)
            if isinstance(inner, SRef): inner = ops.as_seq(st3, inner)
            if not isinstance(inner, SSeq): raise Unsupported("nested comprehension over a non-sequence")
            y = S.wrap(inner.elem, inner.arr[b])
            pe1 = pe0.sub(env=dict(pe0.env, **{g1.target.id: y}), bound=(b,))
            body = pe1.ev(e.elt)
            if isinstance(body, SRef): raise Unsupported("comprehension producing objects")
            bt = term_of(body); es = bt.sort()
            S._ctr[0] += 1
            oi = z3.Function(f"fl.oi!{S._ctr[0]}", es, z3.IntSort()); ii = z3.Function(f"fl.ii!{S._ctr[0]}", es, z3.IntSort())
            at = lambda t, ta, tb: z3.substitute(t, (a, ta), (b, tb))
            yv = z3.Const("y!fl", es)
            in_rng = lambda ta, tb: z3.And(ta >= 0, ta < src.n, tb >= 0, tb < at(inner.n, ta, tb))
            member = z3.Lambda([yv], z3.And(in_rng(oi(yv), ii(yv)), yv == at(bt, oi(yv), ii(yv))))
            n = S.fresh("fl.n", z3.IntSort()); arr = S.fresh("fl.arr", z3.ArraySort(z3.IntSort(), es))
            st3 = st3.fact(S.seq_norm(n, arr, es))
            el = at(bt, a, b)
            st3 = st3.fact(z3.ForAll([a, b], z3.Implies(in_rng(a, b), z3.And(in_rng(oi(el), ii(el)), el == at(bt, oi(el), ii(el))))))
            res = SSeq(body.ty, n, arr, setview=member)
            st3 = ops.elem_inv_facts(ops.seq_setview_facts(st3, res), res)
            def go(defs, st4):
                if not defs: return k(res, st4)
                exc, c = defs[0]
                allc = z3.ForAll([a, b], z3.Implies(in_rng(a, b), c))
                return self.branch(allc, st4, lambda s_: go(defs[1:], s_), lambda s_: self.raise_(exc, s_))
            return go(list(pe0.defs), st3)
        return self.ev(g0.iter, st, got)

    def comprehension(self, e, st, k):
        if len(e.generators) == 2 and not any(g.is_async for g in e.generators):
            return self.flatten_comp(e, st, k)
        if len(e.generators) != 1 or e.generators[0].is_async:
            raise Unsupported("nested comprehension")
        g = e.generators[0]
        def got(it, st2):
            if isinstance(it, SOpaqueObj) or (type(it).__name__ == "SIter" and any(isinstance(x, SOpaqueObj) for x in it.args)):
                return k(SOpaqueObj("comprehension"), st2)
            if not isinstance(g.target, ast.Name): raise Unsupported("comprehension target")
            st3, src = self.iter_seq(it, st2)
            i = S.fresh("i!c", z3.IntSort())
            x = S.wrap(src.elem, src.arr[i])
            from vf.pyvc.spec import PureEval
            pe = PureEval(self, st3, dict(st3.env, **{g.target.id: x}))
            if g.ifs:
                return self.filter_comp(e, g, src, i, pe, st3, k)
            if (isinstance(e.elt, ast.Call) and isinstance(e.elt.func, ast.Name) and e.elt.func.id == "Node"
                    and len(e.elt.args) == 1 and not e.elt.keywords and "Node" not in st3.env):
                return self.fresh_nodes_comp(e, src, i, pe, st3, k)
            try:
                body = pe.ev(e.elt)
            except Unsupported as u:
                # the element expression is ill-typed for this element type: fine iff the source is empty
                def dead(s):
                    self.vc(f"{self.top_name}.ill_typed_path_unreachable", s, z3.BoolVal(False),
                            f"comprehension body not evaluable ({u}) on a possibly non-empty sequence")
                return self.branch(src.n == 0, st3, lambda s: k(EmptySeq(), s), dead)
            if isinstance(body, SRef): raise Unsupported("comprehension producing objects")
            bt = term_of(body)
            es = bt.sort()
            j = z3.Int("j!c")
            arr = z3.Lambda([j], z3.If(z3.And(j >= 0, j < src.n), z3.substitute(bt, (i, j)), S.dflt(es)))
            res = SSeq(body.ty, src.n, arr)
            # an element expression that is undefined for some element raises (KeyError / IndexError)
            def go(defs, st4):
                if not defs: return k(res, st4)
                exc, c = defs[0]
                allc = z3.ForAll([i], z3.Implies(z3.And(i >= 0, i < src.n), c))
                return self.branch(allc, st4, lambda s: go(defs[1:], s), lambda s: self.raise_(exc, s))
            return go(list(pe.defs), st3)
        return self.ev(g.iter, st, got)

    def fresh_nodes_comp(self, e, src, i, pe, st, k):
        """[Node(label(x)) for x in src]: one new Node per element, used through the (proved) contract of Node.__init__ with
        id=None: the given label, an implicit integer id that was not alive before and is alive afterwards, not persistent;
        the ids of different positions differ."""
        lab = pe.ev(e.elt.args[0])
        if not (isinstance(lab, SPrim) and lab.ty == "NodeLabel"): raise Unsupported("Node(<non-label>) in a comprehension")
        es = S.sort_of("Node")
        n = src.n
        arr = S.fresh("nn.arr", z3.ArraySort(z3.IntSort(), es))
        new_alive = S.fresh("alive", st.alive.sort())
        j, j2, a = z3.Int("j!nn"), z3.Int("j2!nn"), z3.Int("i!al")
        lab_at = lambda t: z3.substitute(lab.t, (i, t))
        idn = lambda t: S.Id.i(S.Node.f_id(arr[t]))
        st = st.fact(S.seq_norm(n, arr, es))
        st = st.fact(z3.ForAll([j], z3.Implies(z3.And(j >= 0, j < n), z3.And(
            S.Node.f_label(arr[j]) == lab_at(j), S.Id.is_IntId(S.Node.f_id(arr[j])), z3.Not(S.Node.f_persist_id(arr[j])),
            z3.Not(st.alive[idn(j)]), new_alive[idn(j)])), patterns=[arr[j]]))
        st = st.fact(z3.ForAll([j, j2], z3.Implies(z3.And(j >= 0, j < j2, j2 < n), idn(j) != idn(j2))))
        st = st.fact(z3.ForAll([a], z3.Implies(st.alive[a], new_alive[a])))
        return k(SSeq("Node", n, arr), st.but(alive=new_alive))

    def filter_comp(self, e, g, src, i, pe, st, k):
        """[f(x) for x in src if c(x)]: a fresh sequence r with an order-preserving index map."""
        cond = z3.And(*[ops.truth(st, pe.ev(c)) for c in g.ifs])
        body = pe.ev(e.elt)
        bt = term_of(body); es = bt.sort()
        n = S.fresh("fc.n", z3.IntSort()); arr = S.fresh("fc.arr", z3.ArraySort(z3.IntSort(), es))
        srcidx = z3.Function(f"fc.src!{S._ctr[0]}", z3.IntSort(), z3.IntSort())
        dstidx = z3.Function(f"fc.dst!{S._ctr[0]}", z3.IntSort(), z3.IntSort())
        j, j2 = z3.Int("j!fc"), z3.Int("j2!fc")
        c_at = lambda t: z3.substitute(cond, (i, t))
        b_at = lambda t: z3.substitute(bt, (i, t))
        st = st.fact(S.seq_norm(n, arr, es)).fact(n <= src.n)
        st = st.fact(z3.ForAll([j], z3.Implies(z3.And(j >= 0, j < n),
                     z3.And(srcidx(j) >= 0, srcidx(j) < src.n, c_at(srcidx(j)), arr[j] == b_at(srcidx(j)),
                            dstidx(srcidx(j)) == j))))
        st = st.fact(z3.ForAll([j, j2], z3.Implies(z3.And(j >= 0, j < j2, j2 < n), srcidx(j) < srcidx(j2))))
        st = st.fact(z3.ForAll([j], z3.Implies(z3.And(j >= 0, j < src.n, c_at(j)),
                     z3.And(dstidx(j) >= 0, dstidx(j) < n, srcidx(dstidx(j)) == j))))
        # ground instances at positions 0 and 1 (code typically asks "is the result empty / a singleton / longer";
        # the instances give the solver the witnesses it would otherwise have to guess)
        for c0 in (0, 1):
            jj = z3.IntVal(c0)
            st = st.fact(z3.Implies(n > c0, z3.And(srcidx(jj) >= 0, srcidx(jj) < src.n, c_at(srcidx(jj)),
                                                   arr[jj] == b_at(srcidx(jj)), dstidx(srcidx(jj)) == jj)))
        st = st.fact(z3.Implies(n > 1, srcidx(z3.IntVal(0)) < srcidx(z3.IntVal(1))))
        setview = None
        if getattr(src, "setview", None) is not None:
            # the set of elements of the result, as a set builder over the element set of the source
            from vf.pyvc.spec import PureEval
            x = S.fresh("x!sb", S.sort_of(src.elem))
            pe2 = PureEval(self, st, dict(st.env, **{g.target.id: S.wrap(src.elem, x)}), bound=(x,))
            cond_x = z3.And(src.setview[x], *[ops.truth(st, pe2.ev(c)) for c in g.ifs])
            setview = S.set_builder_mem((x,), x, cond_x, term_of(pe2.ev(e.elt)))
        res = SSeq(body.ty, n, arr, setview=setview)
        return k(res, ops.elem_inv_facts(ops.seq_setview_facts(st, res), res))

    def ev_DictComp(self, e, st, k):
        """{key(x): val(x) for x in seq}: last write wins."""
        if len(e.generators) != 1: raise Unsupported("dict comprehension form")
        g = e.generators[0]
        def got(it, st2):
            if isinstance(it, SOpaqueObj):
                return k(SOpaqueObj("dictcomp"), st2)
            fake = ast.For(target=g.target, iter=g.iter, body=[], orelse=[])
            st3, tsq, n = self.targets_for(fake, it, st2)
            i = S.fresh("i!dc", z3.IntSort())
            env = dict(st3.env)
            for t, sq in tsq:
                if not isinstance(t, ast.Name): raise Unsupported("dict comprehension target")
                env[t.id] = S.wrap(sq.elem, sq.arr[i])
            from vf.pyvc.spec import PureEval
            pe = PureEval(self, st3, env)
            kv = pe.ev(e.key)
            flt = z3.And(*[ops.truth(st3, pe.ev(c)) for c in g.ifs]) if g.ifs else z3.BoolVal(True)
            flt_at = lambda t: z3.substitute(flt, (i, t))
            if g.ifs and isinstance(e.value, ast.Call) and getattr(e.value.func, "id", "") in ("dict", "set") and not e.value.args:
                raise Unsupported("filtered adjacency comprehension")
            if isinstance(e.value, ast.Call) and getattr(e.value.func, "id", "") in ("dict", "set") and not e.value.args:
                # {x: dict() for x in ...} / {x: set() ...}: an adjacency map; the inner keys have the type of the outer keys
                ks = S.sort_of(kv.ty)
                kt = term_of(kv)
                dom = S.fresh("dc.dom", z3.ArraySort(ks, z3.BoolSort()))
                j = z3.Int("j!dc"); kk = z3.Const("k!dc", ks)
                key_at = lambda t: z3.substitute(kt, (i, t))
                st3 = st3.fact(z3.ForAll([j], z3.Implies(z3.And(j >= 0, j < n), dom[key_at(j)])))
                src = z3.Function(f"dc.src!{S._ctr[0]}", ks, z3.IntSort())
                st3 = st3.fact(z3.ForAll([kk], z3.Implies(dom[kk], z3.And(src(kk) >= 0, src(kk) < n, key_at(src(kk)) == kk))))
                empty = z3.K(ks, z3.BoolVal(False))
                r = new_ref()
                ty = ("dict", kv.ty, ("set", kv.ty))
                return k(SRef(ty, r), st3.put(r, DictCell(kv.ty, ("set", kv.ty), dom, z3.K(ks, empty))))
            vv = pe.ev(e.value)
            for exc, c in pe.defs:
                self.vc(f"{self.top_name}.dict_comprehension_defined", st3,
                        z3.ForAll([i], z3.Implies(z3.And(i >= 0, i < n, flt), c)), f"{exc} inside a dict comprehension")
            kt, vt = term_of(kv), term_of(vv)
            ks, vs = kt.sort(), vt.sort()
            dom = S.fresh("dc.dom", z3.ArraySort(ks, z3.BoolSort()))
            val = S.fresh("dc.val", z3.ArraySort(ks, vs))
            last = z3.Function(f"dc.last!{S._ctr[0]}", ks, z3.IntSort())
            key_at = lambda t: z3.substitute(kt, (i, t))
            val_at = lambda t: z3.substitute(vt, (i, t))
            j = z3.Int("j!dc"); kk = z3.Const("k!dc", ks)
            st3 = st3.fact(z3.ForAll([j], z3.Implies(z3.And(j >= 0, j < n, flt_at(j)), dom[key_at(j)])))
            st3 = st3.fact(z3.ForAll([kk], z3.Implies(dom[kk], z3.And(
                last(kk) >= 0, last(kk) < n, flt_at(last(kk)), key_at(last(kk)) == kk, val[kk] == val_at(last(kk))))))
            st3 = st3.fact(z3.ForAll([kk, j], z3.Implies(z3.And(dom[kk], j > last(kk), j < n, flt_at(j)), key_at(j) != kk)))
            r = new_ref()
            return k(SRef(("dict", kv.ty, vv.ty), r), st3.put(r, DictCell(kv.ty, vv.ty, dom, val)))
        return self.ev(g.iter, st, got)

    def iter_seq(self, it, st):
        """The sequence a `for` would traverse: (St', SSeq)."""
        st2, sq = self._iter_seq(it, st)
        if st2 is not st and getattr(sq, "setview", None) is not None and not isinstance(it, SSeq):
            st2 = ops.seq_setview_facts(st2, sq)        # a fresh enumeration of a dict / set
            st2 = ops.elem_inv_facts(st2, sq)
        return st2, sq

    def _iter_seq(self, it, st):
        if isinstance(it, SSeq): return st, it
        if isinstance(it, SClosure) and it.kind == "emptylist": return st, EmptySeq()
        if isinstance(it, SRef):
            c = st.cell(it.ref)
            if isinstance(c, ListCell): return st, SSeq(c.elem, c.n, c.arr, setview=c.setview)
            if isinstance(c, DictCell):
                st, n, karr = ops.dict_keyseq(st, c)
                return st, SSeq(c.kty, n, self._norm(karr, n, S.sort_of(c.kty)), setview=c.dom)
            if isinstance(c, SetCell):
                st, n, karr = ops.set_keyseq(st, c.elem, c.mem)
                return st, SSeq(c.elem, n, self._norm(karr, n, S.sort_of(c.elem)), setview=c.mem)
        if isinstance(it, SDictView):
            c = st.cell(it.ref)
            st, n, karr = ops.dict_keyseq(st, c)
            i = z3.Int("i!v")
            if it.kind == "keys":
                return st, SSeq(c.kty, n, self._norm(karr, n, S.sort_of(c.kty)), setview=c.dom)
            if it.kind == "values":
                vs = S.sort_of(c.vty)
                arr = S.fresh("vs.arr", z3.ArraySort(z3.IntSort(), vs))        # the values in key order
                st = st.fact(S.seq_norm(n, arr, vs))
                st = st.fact(z3.ForAll([i], z3.Implies(z3.And(i >= 0, i < n), arr[i] == c.val[karr[i]])))
                return st, SSeq(c.vty, n, arr, setview=ops.vals_mem(c.kty, c.vty, c.dom, c.val))
        if isinstance(it, SDictV):
            it = SSetV(it.kty, it.dom)
        if isinstance(it, SSetV):
            st, n, karr = ops.set_keyseq(st, it.elem, it.mem)
            return st, SSeq(it.elem, n, self._norm(karr, n, S.sort_of(it.elem)), setview=it.mem)
        if isinstance(it, SSubSet):
            c = st.cell(it.ref)
            st, n, karr = ops.set_keyseq(st, it.elem, c.val[it.key])
            return st, SSeq(it.elem, n, self._norm(karr, n, S.sort_of(it.elem)), setview=c.val[it.key])
        raise Unsupported(f"iteration over {it}")

    def _norm(self, arr, n, es):
        return arr            # ops.dict_keyseq already yields a normalised array constant


class EmptySeq(SSeq):
    """() / [] whose element type is not known yet."""
    def __init__(self):
        self.elem, self.n, self.arr, self.ty = None, z3.IntVal(0), None, ("seq", None)


class SRecord(SV):
    """A frozen dataclass instance under construction (inside its __init__)."""
    def __init__(self, cls):
        self.cls, self.fields, self.ty = cls, {}, ("rec", cls)
