"""Symbolic program state: path condition, locals, explicit heap, ghost state."""
from __future__ import annotations
import z3
from dataclasses import dataclass, field, replace
from typing import Any, Dict, List, Optional, Tuple
from vf.pyvc import sorts as S
from vf.pyvc.sorts import SV, SPrim, SNone, SSeq, SSetV, SRef


class Unsupported(Exception):
    """The function left the supported subset: the obligation is *undecided*, never a violation."""


@dataclass(frozen=True)
class ObjCell:
    cls: str
    fields: Any            # dict name -> SV (treated as immutable)


@dataclass(frozen=True)
class DictCell:
    kty: Any
    vty: Any
    dom: Any               # Array K Bool
    val: Any               # Array K V


@dataclass(frozen=True)
class ListCell:
    elem: Any
    n: Any
    arr: Any
    setview: Any = None    # see SSeq.setview; dropped by every mutation (mutations build a new cell without it)


@dataclass(frozen=True)
class SetCell:
    elem: Any
    mem: Any


class Hyps(list):
    """hypotheses of a VC: the first `nfacts` are type invariants / ghost enumerations, the rest the path condition"""
    nfacts = 0


class St:
    """Immutable-by-convention state; every update returns a new St."""
    __slots__ = ("pc", "env", "heap", "alive", "warned", "facts", "fr", "ghost")

    def __init__(self, pc=(), env=None, heap=None, alive=None, warned=None, facts=(), fr=None, ghost=None):
        self.ghost = ghost or {}
        self.pc = pc
        self.env = env or {}
        self.heap = heap or {}
        self.alive = alive if alive is not None else z3.Const("alive0", z3.ArraySort(z3.IntSort(), z3.BoolSort()))
        self.warned = warned if warned is not None else z3.BoolVal(False)
        self.facts = facts
        self.fr = fr

    def but(self, **kw):
        s = St(self.pc, self.env, self.heap, self.alive, self.warned, self.facts, self.fr, self.ghost)
        for k, v in kw.items():
            setattr(s, k, v)
        return s

    def assume(self, c):
        return self.but(pc=self.pc + (z3.simplify(c),))

    def fact(self, c):
        return self.but(facts=self.facts + (c,))

    def bind(self, name, v):
        e = dict(self.env); e[name] = v
        return self.but(env=e)

    def cell(self, ref):
        return self.heap[ref]

    def put(self, ref, cell):
        h = dict(self.heap); h[ref] = cell
        return self.but(heap=h)

    def hyps(self):
        h = Hyps(list(self.facts) + list(self.pc))
        h.nfacts = len(self.facts)
        return h


_ref = [0]


def new_ref() -> int:
    _ref[0] += 1
    return _ref[0]


# ---- fresh symbolic values of a given type, with their type invariants --------------------------
def seq_inv(n, arr, elem_ty) -> List[Any]:
    es = S.sort_of(elem_ty)
    out = [S.seq_norm(n, arr, es)]
    i = z3.Int("i!ti")
    inner = value_inv(elem_ty, arr[i])
    if inner:
        out.append(z3.ForAll([i], z3.Implies(z3.And(i >= 0, i < n), z3.And(*inner))))
    return out


def value_inv(ty, t) -> List[Any]:
    """Intrinsic invariants of an immutable value of type ty (established by the constructors,
    preserved by immutability; Edge's is *proved* for Edge.__init__, see contracts)."""
    if ty == "EdgeLabel":
        sq = S.EdgeLabel.f_node_labels(t)
        return seq_inv(S.SeqNL.len(sq), S.SeqNL.arr(sq), "NodeLabel")
    if ty == "Node":
        i = S.Node.f_id(t)
        return [z3.Not(S.Id.is_NoneId(i)), S.Node.f_persist_id(t) == S.Id.is_StrId(i)]
    if ty == "Edge":
        i = S.Edge.f_id(t)
        sq = S.Edge.f_nodes(t)
        n, arr = S.SeqNode.len(sq), S.SeqNode.arr(sq)
        lab = S.Edge.f_label(t)
        lsq = S.EdgeLabel.f_node_labels(lab)
        j = z3.Int("j!ti")
        return ([z3.Not(S.Id.is_NoneId(i)), S.Edge.f_persist_id(t) == S.Id.is_StrId(i)]
                + seq_inv(n, arr, "Node") + value_inv("EdgeLabel", lab)
                + [S.SeqNL.len(lsq) == n,
                   z3.ForAll([j], z3.Implies(z3.And(j >= 0, j < n),
                                             S.SeqNL.arr(lsq)[j] == S.Node.f_label(arr[j])))])
    if ty == "RuleV":
        out = value_inv("EdgeLabel", S.RuleV.f_lhs(t))
        for acc, ety, SS in ((S.RuleV.f_edges, "Edge", S.SeqEdge), (S.RuleV.f_nodes, "Node", S.SeqNode), (S.RuleV.f_ext, "Node", S.SeqNode)):
            sq = acc(t)
            out += seq_inv(SS.len(sq), SS.arr(sq), ety)
        return out
    if ty == "Factor":
        sq = S.fac_domains(t)
        return seq_inv(S.SeqDomain.len(sq), S.SeqDomain.arr(sq), "Domain")
    if ty == "Domain":
        return [S.dom_size(t) >= 0]
    if isinstance(ty, tuple) and ty[0] in ("seq", "list"):
        S_ = S.seq_sort(S.sort_of(ty[1]))
        return seq_inv(S_.len(t), S_.arr(t), ty[1])
    return []


def fresh_value(st: St, ty, name: str) -> Tuple[SV, St]:
    """A fresh symbolic value of type ty (allocating heap cells for mutable types)."""
    if ty == "none":
        return SNone(), st
    if ty == "opaque" or (isinstance(ty, tuple) and ty[0] == "obj" and ty[1] == "opaque"):
        return S.SOpaqueObj(name), st
    if isinstance(ty, str):
        t = S.fresh(name, S.sort_of(ty))
        for c in value_inv(ty, t):
            st = st.fact(c)
        return SPrim(ty, t), st
    k = ty[0]
    if k in ("tup", "dictv"):           # immutable compound values: a fresh constant of the value sort
        return S.wrap(ty, S.fresh(name, S.sort_of(ty))), st
    if k == "seq":
        es = S.sort_of(ty[1])
        n = S.fresh(name + ".len", z3.IntSort())
        arr = S.fresh(name + ".arr", z3.ArraySort(z3.IntSort(), es))
        for c in seq_inv(n, arr, ty[1]):
            st = st.fact(c)
        return SSeq(ty[1], n, arr), st
    if k == "list":
        v, st = fresh_value(st, ("seq", ty[1]), name)
        r = new_ref()
        return SRef(ty, r), st.put(r, ListCell(ty[1], v.n, v.arr))
    if k == "dict":
        r = new_ref()
        ks = S.sort_of(ty[1])
        vs = S.sort_of(ty[2])
        dom = S.fresh(name + ".dom", z3.ArraySort(ks, z3.BoolSort()))
        val = S.fresh(name + ".val", z3.ArraySort(ks, vs))
        kk = z3.Const("k!ti", ks)
        inner = value_inv(ty[2], val[kk])
        if inner:
            st = st.fact(z3.ForAll([kk], z3.Implies(dom[kk], z3.And(*inner))))
        if ty[1] == "Id":
            st = st.fact(z3.Not(dom[S.Id.NoneId]))
        return SRef(ty, r), st.put(r, DictCell(ty[1], ty[2], dom, val))
    if k == "set":
        r = new_ref()
        mem = S.fresh(name + ".mem", z3.ArraySort(S.sort_of(ty[1]), z3.BoolSort()))
        return SRef(ty, r), st.put(r, SetCell(ty[1], mem))
    if k == "obj":
        from vf.pyvc.schema import CLASS_FIELDS
        fields = {}
        for fname, fty in CLASS_FIELDS[ty[1]].items():
            v, st = fresh_value(st, S.parse_type(fty), f"{name}.{fname}")
            fields[fname] = v
        r = new_ref()
        return SRef(ty, r), st.put(r, ObjCell(ty[1], fields))
    raise Unsupported(f"fresh value of type {ty}")
