"""z3 sorts for the Python values fggs manipulates, and the Python-side symbolic value classes.

Encoding (what of Python's semantics is assumed is listed in DESIGN.md section 3):
  int            -> Int (unbounded, as in Python)
  bool           -> Bool
  str            -> uninterpreted sort Str (only equality; literals are pairwise distinct constants)
  hashable value -> uninterpreted sort PyVal (only equality / hash-consistency)
  node / edge id -> datatype Id = NoneId | IntId(Int) | StrId(Str)      (None, id(obj), explicit str)
  tuple / list   -> (len: Int, arr: Array Int T), *normalised*: arr[i] = dflt_T outside [0,len),
                    so that z3's structural equality coincides with Python's sequence equality;
                    packed into the datatype Seq_T when stored inside another value
  frozen dataclasses NodeLabel, EdgeLabel, Node, Edge -> algebraic datatypes (== is structural)
  dict           -> (dom: Array K Bool, val: Array K V); iteration order is an arbitrary
                    enumeration (a ghost key sequence) fixed per iteration
  set            -> Array T Bool
  objects (Graph, HRGRule, ...) -> records of fields in an explicit heap; distinct parameters do not alias
"""
from __future__ import annotations
import z3
from dataclasses import dataclass
from typing import Any, Dict, List, Optional, Tuple

Str = z3.DeclareSort("Str")
PyVal = z3.DeclareSort("PyVal")
DomainRef = z3.DeclareSort("DomainRef")     # a Domain object, opaque: only ==, size()
FactorRef = z3.DeclareSort("FactorRef")     # a Factor object, opaque: arity, domains

_Id = z3.Datatype("Id")
_Id.declare("NoneId")
_Id.declare("IntId", ("i", z3.IntSort()))
_Id.declare("StrId", ("s", Str))
Id = _Id.create()

_NL = z3.Datatype("NodeLabel")
_NL.declare("NodeLabel", ("f_name", Str))
NodeLabel = _NL.create()

_seq_sorts: Dict[str, Any] = {}


def seq_sort(elem_sort):
    key = str(elem_sort)
    if key not in _seq_sorts:
        d = z3.Datatype(f"Seq_{key}")
        d.declare("mk", ("len", z3.IntSort()), ("arr", z3.ArraySort(z3.IntSort(), elem_sort)))
        _seq_sorts[key] = d.create()
    return _seq_sorts[key]


SeqNL = seq_sort(NodeLabel)

_EL = z3.Datatype("EdgeLabel")
_EL.declare("EdgeLabel", ("f_name", Str), ("f_node_labels", SeqNL), ("f_is_terminal", z3.BoolSort()))
EdgeLabel = _EL.create()

_Node = z3.Datatype("Node")
_Node.declare("Node", ("f_label", NodeLabel), ("f_id", Id), ("f_persist_id", z3.BoolSort()))
Node = _Node.create()
SeqNode = seq_sort(Node)

_Edge = z3.Datatype("Edge")
_Edge.declare("Edge", ("f_label", EdgeLabel), ("f_nodes", SeqNode), ("f_id", Id), ("f_persist_id", z3.BoolSort()))
Edge = _Edge.create()

SeqEdge = seq_sort(Edge)
_RuleV = z3.Datatype("RuleV")      # read-only view of an HRGRule: its lhs and the edges / nodes / externals of its rhs
_RuleV.declare("RuleV", ("f_lhs", EdgeLabel), ("f_edges", SeqEdge), ("f_nodes", SeqNode), ("f_ext", SeqNode))
RuleV = _RuleV.create()

DATA = {"RuleV": RuleV, "RhsV": RuleV, "NodeLabel": NodeLabel, "EdgeLabel": EdgeLabel, "Node": Node, "Edge": Edge, "Id": Id}
DATA_FIELDS = {
    "RuleV": [("lhs", "EdgeLabel")],
    "RhsV": [("ext", ("seq", "Node"))],
    "NodeLabel": [("name", "str")],
    "EdgeLabel": [("name", "str"), ("node_labels", ("seq", "NodeLabel")), ("is_terminal", "bool")],
    "Node": [("label", "NodeLabel"), ("id", "Id"), ("persist_id", "bool")],
    "Edge": [("label", "EdgeLabel"), ("nodes", ("seq", "Node")), ("id", "Id"), ("persist_id", "bool")],
}

# ---- type descriptors ------------------------------------------------------------------------
# 'int' 'bool' 'str' 'Id' 'NodeLabel' 'EdgeLabel' 'Node' 'Edge' 'PyVal' 'Domain' 'Factor' 'none'
# ('seq', T)  ('dict', K, V)  ('set', T)  ('obj', 'Graph')  ('list', T) (mutable list of T)

BASE_SORTS = {"RuleV": RuleV, "RhsV": RuleV, "int": z3.IntSort(), "bool": z3.BoolSort(), "str": Str, "Id": Id, "PyVal": PyVal,
              "NodeLabel": NodeLabel, "EdgeLabel": EdgeLabel, "Node": Node, "Edge": Edge,
              "Domain": DomainRef, "Factor": FactorRef}


def parse_type(t):
    """'Node' | 'seq[Node]' | 'dict[Id,Node]' | 'set[Node]' | 'list[int]' | 'Graph' (object) -> descriptor"""
    if not isinstance(t, str):
        return t
    t = t.strip()
    if "[" in t:
        head, rest = t.split("[", 1)
        rest = rest[:-1]
        parts, depth, cur = [], 0, ""
        for c in rest:
            if c == "[": depth += 1
            if c == "]": depth -= 1
            if c == "," and depth == 0:
                parts.append(cur); cur = ""
            else:
                cur += c
        parts.append(cur)
        args = tuple(parse_type(p) for p in parts)
        return (head.strip(),) + args
    if t in BASE_SORTS or t == "none":
        return t
    return ("obj", t)


_tup_sorts: Dict[str, Any] = {}


def tup_sort(tys):
    sorts = [sort_of(t) for t in tys]
    key = "Tup<" + ",".join(str(x) for x in sorts) + ">"
    if key not in _tup_sorts:
        d = z3.Datatype(key)
        d.declare("mk", *[(f"t{i}", srt) for i, srt in enumerate(sorts)])
        _tup_sorts[key] = d.create()
    return _tup_sorts[key]


def sort_of(t):
    """z3 sort of a value of type t when stored inside an array / datatype."""
    if isinstance(t, str):
        return BASE_SORTS[t]
    if t[0] == "tup":
        return tup_sort(t[1:])
    if t[0] in ("seq", "list"):
        return seq_sort(sort_of(t[1]))
    if t[0] == "set":
        return z3.ArraySort(sort_of(t[1]), z3.BoolSort())
    if t[0] == "dictv":        # an immutable mapping value (e.g. the shapes of a MultiTensor): (domain, values)
        return dictv_sort(sort_of(t[1]), sort_of(t[2]))
    raise TypeError(f"type {t} has no value sort (mutable object in a container?)")


_dictv_sorts: Dict[str, Any] = {}


def dictv_sort(ks, vs):
    key = f"DictV<{ks},{vs}>"
    if key not in _dictv_sorts:
        d = z3.Datatype(key)
        d.declare("mk", ("dom", z3.ArraySort(ks, z3.BoolSort())), ("val", z3.ArraySort(ks, vs)))
        _dictv_sorts[key] = d.create()
    return _dictv_sorts[key]


_dflt: Dict[str, Any] = {}


def dflt(sort):
    k = str(sort)
    if k not in _dflt:
        _dflt[k] = z3.Const(f"dflt_{k}", sort)
    return _dflt[k]


SeqDomain = seq_sort(DomainRef)
fac_domains = z3.Function("Factor.domains", FactorRef, SeqDomain)
dom_size = z3.Function("Domain.size", DomainRef, z3.IntSort())
# attributes / nullary methods of opaque objects: (type, name) -> (result type, term builder)
OPAQUE_ATTRS = {
    ("RuleV", "rhs"): ("RhsV", lambda t: t),
    ("Factor", "domains"): (("seq", "Domain"), lambda t: fac_domains(t)),
    ("Factor", "arity"): ("int", lambda t: SeqDomain.len(fac_domains(t))),
}
OPAQUE_METHODS = {
    ("RhsV", "edges"): (("seq", "Edge"), lambda t: RuleV.f_edges(t)),
    ("RhsV", "nodes"): (("seq", "Node"), lambda t: RuleV.f_nodes(t)),
    ("Domain", "size"): ("int", lambda t: dom_size(t)),
    # a rule snapshot copies to an equal snapshot (HRGRule.copy is verified separately: equal lhs and rhs tables)
    ("RuleV", "copy"): ("RuleV", lambda t: t),
}

pv_of_str = z3.Function("pv_of_str", Str, PyVal)          # a str as a generic Python value (injective)
str_of_pv = z3.Function("str_of_pv", PyVal, Str)
_s = z3.Const("s!pv", Str)
PV_AXIOMS = [z3.ForAll([_s], str_of_pv(pv_of_str(_s)) == _s)]

_lits: Dict[str, Any] = {}


def str_lit(s: str):
    if s not in _lits:
        _lits[s] = z3.Const(f"str:{s}", Str)
    return _lits[s]


def lit_axioms():
    vs = list(_lits.values())
    return ([z3.Distinct(*vs)] if len(vs) > 1 else []) + PV_AXIOMS


_ctr = [0]

# ---- lambda lifting -------------------------------------------------------------------------------
# A comprehension evaluated under a quantifier would put a lambda term with free bound variables inside the
# quantifier, on which z3's array theory is incomplete ("incomplete (theory array)").  Such a lambda is replaced
# by a fresh function of the bound variables, defined by one axiom (a conservative extension).  Structurally
# identical comprehensions share their function.
LIFTED: Dict[str, Any] = {}      # function name -> defining axiom
_lift_keys: Dict[str, Any] = {}


def lift_lambda(bound, j, body):
    """Lambda([j], body) where body mentions some of the variables `bound` -> term F(*fv) with its axiom registered."""
    fv = [v for v in bound if _occurs(v, body)]
    if not fv:
        return z3.Lambda([j], body)
    canon = [z3.Const(f"lv!{i}", v.sort()) for i, v in enumerate(fv)]
    jc = z3.Const("lj!", j.sort())
    nb = z3.substitute(body, *list(zip(fv, canon)), (j, jc))
    key = ",".join(str(c.sort()) for c in canon) + "|" + nb.sexpr()
    if key not in _lift_keys:
        name = f"lift!{len(_lift_keys)}"
        F = z3.Function(name, *[v.sort() for v in fv], z3.ArraySort(j.sort(), body.sort()))
        ax = z3.ForAll(canon + [jc], F(*canon)[jc] == nb, patterns=[F(*canon)[jc]])
        LIFTED[name] = ax
        _lift_keys[key] = F
    return _lift_keys[key](*fv)


_inv_keys: Dict[str, Any] = {}


def set_builder_mem(bound, x, cond, bt):
    """Membership array of { f(x) | c(x) }  (x a z3 constant, cond = c(x) incl. the source membership, bt = f(x)),
    with a choice function instead of an existential:
        y in result := c(inv(y)) and y == f(inv(y));   axiom: forall x. c(x) => c(inv(f(x))) and f(inv(f(x))) == f(x)
    Structurally identical comprehensions (program or specification side) share inv, hence yield the same term."""
    y = z3.Const("y!sb", bt.sort())
    cond, bt = beta(cond), beta(bt)
    if z3.eq(bt, x):
        return z3.Lambda([y], z3.substitute(cond, (x, y)))
    fv = [v for v in bound if not z3.eq(v, x) and (_occurs(v, cond) or _occurs(v, bt))]
    canon = [z3.Const(f"lv!{i}", v.sort()) for i, v in enumerate(fv)]
    xa = z3.Const("x!inv", x.sort())
    sub = list(zip(fv, canon)) + [(x, xa)]
    c_c, b_c = z3.substitute(cond, *sub), z3.substitute(bt, *sub)
    key = ",".join(str(c.sort()) for c in canon) + "|" + c_c.sexpr() + "|" + b_c.sexpr()
    if key not in _inv_keys:
        name = f"inv!{len(_inv_keys)}"
        inv = z3.Function(name, *[c.sort() for c in canon], bt.sort(), x.sort())
        at = lambda e_, t_: z3.substitute(e_, (xa, t_))
        w = inv(*canon, b_c)
        # triggers: the image f(x), or an uninterpreted function applied directly to x inside the condition
        # (e.g. keyof(x) when the source is the value set of a dict) -- but only when no other variable is lost
        pats = [b_c]
        if not canon:
            pats += _direct_apps(xa, c_c)[:2]
        LIFTED[name] = z3.ForAll(canon + [xa], z3.Implies(c_c, z3.And(at(c_c, w), at(b_c, w) == b_c)), patterns=pats)
        _inv_keys[key] = inv
    inv = _inv_keys[key]
    w = inv(*fv, y)
    return z3.Lambda([y], z3.And(z3.substitute(cond, (x, w)), y == z3.substitute(bt, (x, w))))


def beta(e):
    """beta-reduce select(Lambda, t) outside quantifiers (so that triggers can be read off the reduced term)"""
    cache = {}
    def go(x):
        k = x.get_id()
        if k in cache: return cache[k]
        r = x
        if z3.is_app(x) and x.num_args() > 0:
            ch = [go(c) for c in x.children()]
            if x.decl().kind() == z3.Z3_OP_SELECT and z3.is_quantifier(ch[0]) and ch[0].is_lambda() and ch[0].num_vars() == len(ch) - 1:
                r = go(z3.substitute_vars(ch[0].body(), *reversed(ch[1:])))
            elif any(not z3.eq(a, b) for a, b in zip(ch, x.children())):
                r = x.decl()(*ch)
        cache[k] = r
        return r
    return go(e)


def _direct_apps(v, e):
    """uninterpreted-function applications f(v) occurring in e"""
    out, todo, seen = [], [e], set()
    while todo:
        x = todo.pop()
        if x.get_id() in seen: continue
        seen.add(x.get_id())
        if z3.is_quantifier(x):
            continue
        if z3.is_app(x):
            if (x.decl().kind() == z3.Z3_OP_UNINTERPRETED and x.num_args() == 1 and z3.eq(x.arg(0), v)
                    and all(not z3.eq(x, o) for o in out)):
                out.append(x)
            todo.extend(x.children())
    return out


def _occurs(v, e):
    todo, seen = [e], set()
    while todo:
        x = todo.pop()
        if x.get_id() in seen: continue
        seen.add(x.get_id())
        if z3.eq(x, v): return True
        if z3.is_quantifier(x): todo.append(x.body())
        elif z3.is_app(x): todo.extend(x.children())
    return False


def lifted_axioms_for(exprs):
    """the defining axioms of the lifted functions that occur in exprs (closed under dependency)"""
    if not LIFTED: return []
    names, out, todo = set(), [], list(exprs)
    seen = set()
    while todo:
        x = todo.pop()
        if x.get_id() in seen: continue
        seen.add(x.get_id())
        if z3.is_quantifier(x):
            todo.append(x.body()); continue
        if z3.is_app(x):
            n = x.decl().name()
            if n in LIFTED and n not in names:
                names.add(n); out.append(LIFTED[n]); todo.append(LIFTED[n])
            todo.extend(x.children())
    return out


def fresh(prefix, sort):
    _ctr[0] += 1
    return z3.Const(f"{prefix}!{_ctr[0]}", sort)


# ---- symbolic values ---------------------------------------------------------------------------
class SV:
    pass


@dataclass
class SPrim(SV):       # int / bool / str / Id / PyVal / datatype values / Domain
    ty: Any
    t: Any

    def __repr__(self): return f"<{self.ty}:{self.t}>"


@dataclass
class SNone(SV):
    ty: Any = "none"


@dataclass
class SSeq(SV):        # immutable sequence value (tuple, or the value held by a list cell)
    elem: Any
    n: Any             # z3 Int
    arr: Any           # z3 Array Int -> elem sort (normalised)
    ty: Any = None
    setview: Any = None   # optional: membership array of the set of elements (when the sequence enumerates a dict / set)
    pk: Any = None        # optional: the datatype term this value was unpacked from (kept so that terms stay syntactically equal)

    def __post_init__(self):
        self.ty = ("seq", self.elem)

    def packed(self):
        if self.pk is not None: return self.pk
        return seq_sort(sort_of(self.elem)).mk(self.n, self.arr)


@dataclass
class SSetV(SV):       # immutable set value (membership array)
    elem: Any
    mem: Any
    ty: Any = None

    def __post_init__(self):
        self.ty = ("set", self.elem)


@dataclass
class SDictV(SV):      # immutable dict value (snapshot of a dict cell; used by specifications)
    kty: Any
    vty: Any
    dom: Any
    val: Any
    ty: Any = None

    def __post_init__(self):
        self.ty = ("dict", self.kty, self.vty)


@dataclass
class SRef(SV):        # reference to a heap cell: object, dict, list, set
    ty: Any
    ref: int


@dataclass
class SDictView(SV):   # d.keys() / d.values() / d.items() of a heap dict
    kind: str
    ref: int
    ty: Any = "view"


@dataclass
class SSubSet(SV):     # graph[u] where graph: dict[V, set[V]] -- a mutable set living inside a dict cell
    ref: int
    key: Any
    elem: Any
    ty: Any = "subset"


@dataclass
class SClosure(SV):    # a callable known by name (class constructor, function, bound method)
    kind: str
    name: str
    recv: Any = None
    ty: Any = "callable"


@dataclass
class SOpaque(SV):     # a value we do not model (messages, ...)
    what: str = ""
    ty: Any = "opaque"


@dataclass
class STuple(SV):      # a small heterogeneous tuple of known length (e.g. `return dmax, order`, `(edge.id, ids)`)
    items: Any
    ty: Any = "tuple"
    pk: Any = None     # the datatype term this tuple was unpacked from, if any

    def __post_init__(self):
        tys = [getattr(v, "ty", None) for v in self.items]
        if all(isinstance(v, (SPrim, SSeq)) and v.ty is not None and getattr(v, "elem", 0) is not None for v in self.items):
            self.ty = ("tup",) + tuple(tys)        # a value type: can be stored in sets / lists / dicts


Obj = z3.DeclareSort("Obj")      # identity of objects whose class is not modelled


@dataclass
class SOpaqueObj(SV):  # an object whose class is not modelled (MultiTensor, callables, tensors): calls on it
    name: str          # yield fresh values; attribute reads, `in` and len are uninterpreted functions of its
    ty: Any = "opaque" # identity `t`, hence deterministic
    t: Any = None

    def ident(self):
        if self.t is None:
            self.t = fresh("obj", Obj)
        return self.t


_obj_fns: Dict[str, Any] = {}


def obj_fn(name, *sorts):
    key = name + ":" + ",".join(str(x) for x in sorts)
    if key not in _obj_fns:
        _obj_fns[key] = z3.Function(key, *sorts)
    return _obj_fns[key]


def unpack_seq(elem_ty, term) -> SSeq:
    S = seq_sort(sort_of(elem_ty))
    return SSeq(elem_ty, S.len(term), S.arr(term), pk=term)


def wrap(ty, term) -> SV:
    """Wrap a z3 term of sort_of(ty) as a symbolic value."""
    if isinstance(ty, tuple) and ty[0] == "tup":
        T = tup_sort(ty[1:])
        return STuple([wrap(t, getattr(T, f"t{i}")(term)) for i, t in enumerate(ty[1:])], pk=term)
    if isinstance(ty, tuple) and ty[0] in ("seq", "list"):
        return unpack_seq(ty[1], term)
    if isinstance(ty, tuple) and ty[0] == "set":
        return SSetV(ty[1], term)
    if isinstance(ty, tuple) and ty[0] == "dictv":
        D = dictv_sort(sort_of(ty[1]), sort_of(ty[2]))
        return SDictV(ty[1], ty[2], D.dom(term), D.val(term))
    return SPrim(ty, term)


def term_of(v: SV):
    """z3 term of a value, for storing into arrays / datatypes / equality."""
    if isinstance(v, SPrim): return v.t
    if isinstance(v, SSeq): return v.packed()
    if isinstance(v, SSetV): return v.mem
    if isinstance(v, SDictV): return dictv_sort(sort_of(v.kty), sort_of(v.vty)).mk(v.dom, v.val)
    if isinstance(v, SNone): return Id.NoneId
    if isinstance(v, STuple) and v.pk is not None: return v.pk
    if isinstance(v, STuple) and isinstance(v.ty, tuple):
        return tup_sort(v.ty[1:]).mk(*[term_of(x) for x in v.items])
    raise TypeError(f"no term for {v}")


def seq_norm(n, arr, elem_sort):
    """Normalisation invariant of a sequence (len >= 0, default outside the range)."""
    i = z3.Int("i!norm")
    return z3.And(n >= 0, z3.ForAll([i], z3.Implies(z3.Or(i < 0, i >= n), arr[i] == dflt(elem_sort))))
