"""Field types of the mutable classes of fggs (read off the constructors in /repo/fggs/*.py;
`check_schema` verifies on every run that each constructor still assigns exactly these fields)."""
from __future__ import annotations
import ast

_GRAPH = {
    "_nodes": "dict[Id,Node]",
    "_edges": "dict[Id,Edge]",
    "_node_labels": "dict[str,NodeLabel]",
    "_edge_labels": "dict[str,EdgeLabel]",
    "_ext": "seq[Node]",
}
_INTERP = {"domains": "dict[str,Domain]", "factors": "dict[str,Factor]"}

CLASS_FIELDS = {
    "Graph": dict(_GRAPH),
    "FactorGraph": {**_GRAPH, **_INTERP},
    "HRGRule": {"lhs": "EdgeLabel", "rhs": "Graph"},
    "LabelTable": {"_node_labels": "dict[str,NodeLabel]", "_edge_labels": "dict[str,EdgeLabel]"},
    "Interp": {"_node_labels": "dict[str,NodeLabel]", "_edge_labels": "dict[str,EdgeLabel]", **_INTERP},
    # read-only view of an HRG: label tables and the flat sequence of its rules (see contracts/utils.py:
    # HRG.all_rules / HRG.nonterminals are used through *assumed* contracts over this view)
    "HRGView": {"_node_labels": "dict[str,NodeLabel]", "_edge_labels": "dict[str,EdgeLabel]", "_rule_seq": "seq[RuleV]"},
    # an HRG as far as its label tables go; the rule table (dict of lists of mutable rules) is opaque
    "HRGLabels": {"_node_labels": "dict[str,NodeLabel]", "_edge_labels": "dict[str,EdgeLabel]", "_rules": "opaque"},
    # an HRG with its rule table, the rules being immutable snapshots (RuleV): all_rules / rules are verified on this view
    "HRGTable": {"_node_labels": "dict[str,NodeLabel]", "_edge_labels": "dict[str,EdgeLabel]", "_rules": "dict[EdgeLabel,seq[RuleV]]"},
    # a whole HRG: label tables, rule table (rules as snapshots) and a start symbol that is set
    "HRGFull": {"_node_labels": "dict[str,NodeLabel]", "_edge_labels": "dict[str,EdgeLabel]",
                "_rules": "dict[EdgeLabel,seq[RuleV]]", "_start": "EdgeLabel"},
    # a MultiTensor as far as its keys go: the shapes (one immutable mapping per index position) and the block table
    "MultiTensor": {"shapes": "tup[dictv[PyVal,PyVal],dictv[PyVal,PyVal]]", "semiring": "opaque",
                    "_dict": "dict[seq[PyVal],PyVal]"},
    "HRG": {"_node_labels": "dict[str,NodeLabel]", "_edge_labels": "dict[str,EdgeLabel]",
            "_rules": "dict[EdgeLabel,seq[RuleV]]", "_start": "EdgeLabel"},
    # an HRG as far as its start symbol goes
    "HRGStart": {"_start": "EdgeLabel"},
    "FiniteDomain": {"values": "list[PyVal]", "_value_index": "dict[PyVal,int]"},
    "RangeDomain": {"_size": "int"},
}

# concrete class used for method resolution when the static type is one of the pseudo classes above
RESOLVE_AS = {"LabelTable": "Graph", "Interp": "FactorGraph", "HRGView": "HRG", "HRGLabels": "HRG", "HRGStart": "HRG", "HRGTable": "HRG", "HRGFull": "HRG"}


def check_schema(program) -> list:
    """Constructor field sets must match the schema (else the model is stale): list of problems."""
    problems = []
    for cls in ("Graph", "FactorGraph", "FiniteDomain", "RangeDomain"):
        got = set()
        for c in program.mro(cls):
            ci = program.classes.get(c)
            if ci and "__init__" in ci.methods:
                for n in ast.walk(ci.methods["__init__"]):
                    if isinstance(n, (ast.Assign, ast.AnnAssign)):
                        tgts = n.targets if isinstance(n, ast.Assign) else [n.target]
                        for t in tgts:
                            if isinstance(t, ast.Attribute) and isinstance(t.value, ast.Name) and t.value.id == "self":
                                got.add(t.attr)
        want = set(CLASS_FIELDS[cls])
        if got != want:
            problems.append(f"{cls}: constructor assigns {sorted(got)}, schema has {sorted(want)}")
    return problems
