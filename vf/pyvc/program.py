"""The program under verification: ASTs of the real modules in /repo, re-read on every run."""
from __future__ import annotations
import ast, os
from typing import Any, Dict, List, Optional, Tuple
from vf import core


class ClassInfo:
    def __init__(self, name, module, node: ast.ClassDef):
        self.name, self.module, self.node = name, module, node
        self.bases = [ast.unparse(b) for b in node.bases]
        self.methods: Dict[str, ast.FunctionDef] = {}
        self.getters: Dict[str, ast.FunctionDef] = {}
        self.setters: Dict[str, ast.FunctionDef] = {}
        self.static: set = set()
        self.assigns: Dict[str, ast.expr] = {}
        self.decorators = [ast.unparse(d) for d in node.decorator_list]
        for it in node.body:
            if isinstance(it, ast.FunctionDef):
                decs = [ast.unparse(d) for d in it.decorator_list]
                if "property" in decs:
                    self.getters[it.name] = it
                elif any(d.endswith(".setter") for d in decs):
                    self.setters[it.name] = it
                else:
                    self.methods[it.name] = it
                    if "staticmethod" in decs:
                        self.static.add(it.name)
            elif isinstance(it, ast.Assign) and len(it.targets) == 1 and isinstance(it.targets[0], ast.Name):
                self.assigns[it.targets[0].id] = it.value


class Program:
    """qualified names:  fggs.fggs.Graph.add_node,  fggs.utils.scc, ..."""

    def __init__(self, repo: str = None, modules=("fggs", "domains", "factors", "utils", "derivations",
                                                  "conjunction", "factorize", "formats", "multi",
                                                  "sum_product", "viterbi", "semirings", "indices", "equation")):
        self.repo = repo or core.REPO
        self.trees: Dict[str, ast.Module] = {}
        self.classes: Dict[str, ClassInfo] = {}
        self.functions: Dict[str, ast.FunctionDef] = {}
        self.func_module: Dict[str, str] = {}
        self.lines: Dict[str, str] = {}
        for m in modules:
            path = os.path.join(self.repo, "fggs", m + ".py")
            if not os.path.exists(path):
                continue
            src = open(path).read()
            tree = ast.parse(src, path)
            self.trees[m] = tree
            for node in tree.body:
                if isinstance(node, ast.ClassDef):
                    ci = ClassInfo(node.name, m, node)
                    self.classes[node.name] = ci
                    for k, f in list(ci.methods.items()) + list(ci.getters.items()):
                        self.lines[f"fggs.{m}.{node.name}.{k}"] = f"fggs/{m}.py:{f.lineno}"
                    for k, f in ci.setters.items():
                        self.lines[f"fggs.{m}.{node.name}.{k}.setter"] = f"fggs/{m}.py:{f.lineno}"
                elif isinstance(node, ast.FunctionDef):
                    self.functions[f"{m}.{node.name}"] = node
                    self.func_module[node.name] = m
                    self.lines[f"fggs.{m}.{node.name}"] = f"fggs/{m}.py:{node.lineno}"

    # ---- class hierarchy -------------------------------------------------------------------
    def mro(self, cls: str) -> List[str]:
        ci = self.classes.get(cls)
        if ci is None:
            return [cls]
        seqs = [self.mro(b) for b in ci.bases if b in self.classes] + [[b for b in ci.bases if b in self.classes]]
        res = [cls]
        seqs = [list(s) for s in seqs if s]
        while seqs:
            for s in seqs:
                h = s[0]
                if not any(h in t[1:] for t in seqs):
                    break
            else:
                raise ValueError("inconsistent MRO for " + cls)
            res.append(h)
            seqs = [[x for x in t if x != h] for t in seqs]
            seqs = [t for t in seqs if t]
        return res

    def find_method(self, cls: str, name: str) -> Optional[Tuple[str, ast.FunctionDef]]:
        for c in self.mro(cls):
            ci = self.classes.get(c)
            if ci and name in ci.methods:
                return c, ci.methods[name]
        return None

    def find_getter(self, cls: str, name: str):
        for c in self.mro(cls):
            ci = self.classes.get(c)
            if ci and name in ci.getters:
                return c, ci.getters[name]
        return None

    def find_setter(self, cls: str, name: str):
        for c in self.mro(cls):
            ci = self.classes.get(c)
            if ci and name in ci.setters:
                return c, ci.setters[name]
        return None

    def is_subclass(self, cls: str, base: str) -> bool:
        return base in self.mro(cls)

    def lookup(self, qual: str):
        """'fggs.fggs.Graph.add_node' / 'fggs.fggs.Graph.ext.setter' / 'fggs.utils.scc' -> (owner class or None, FunctionDef)"""
        parts = qual.split(".")
        assert parts[0] == "fggs"
        m = parts[1]
        rest = parts[2:]
        if len(rest) == 1:
            f = self.functions.get(f"{m}.{rest[0]}")
            return (None, f) if f is not None else None
        cls = rest[0]
        ci = self.classes.get(cls)
        if ci is None and len(rest) == 2 and f"{m}.{rest[0]}" in self.functions:
            # a function nested in a module-level function:  fggs.utils.scc.visit
            outer = self.functions[f"{m}.{rest[0]}"]
            for n in ast.walk(outer):
                if isinstance(n, ast.FunctionDef) and n is not outer and n.name == rest[1]:
                    self.lines.setdefault(qual, f"fggs/{m}.py:{n.lineno}")
                    return (None, n)
            return None
        if ci is None or ci.module != m:
            return None
        if len(rest) == 3 and rest[2] == "setter":
            f = ci.setters.get(rest[1])
        else:
            f = ci.methods.get(rest[1]) or ci.getters.get(rest[1])
        return (cls, f) if f is not None else None

    def where(self, qual: str) -> str:
        return self.lines.get(qual, "")
