"""Grammar generator "G" and independent reference semantics for bounded FGG checks.

A *recipe* is a JSON value

    {"node_labels": {"N0": 2, ...},                      # label -> domain size
     "edge_labels": {"S": {"type": [], "terminal": false},
                     "a": {"type": ["N0"], "terminal": true}, ...},
     "start": "S",
     "rules": [{"lhs": "S", "nodes": ["N0", ...],        # node i has label nodes[i]
                "edges": [{"label": "a", "att": [0]}],   # att = node numbers
                "ext": [..node numbers..]}, ...],
     "weights": {"a": nested list of non-negative floats or "inf"},
     "weights_log": false,      # optional: true = the numbers are log-weights ("-inf" allowed)
     "meta": {...},             # optional, ignored by canonical()
     "presentation": {...}}     # optional, ignored by canonical(), see build_fgg

Weights are REAL-semiring values in [0, inf] (unless "weights_log").  `build_fgg`
turns a recipe into a real `fggs.FGG`; `reference_sum_products` computes the
sum-product straight from the definition on Python floats (float64), without
importing fggs or torch.

Public API
    build_fgg(recipe, semiring_name, dtype, presentation=None) -> fggs.FGG
    build_fgg_info(...) -> (fgg, info)   info maps recipe rule/node/edge numbers to objects
    make_semiring(semiring_name, dtype)
    canonical(recipe) -> str ; is_recursive ; nonterminal_deps ; sccs ; is_linearly_recursive ; has_unit_cycle
    classify_entry / compare_dense(dense_tensor, expected_nested, semiring_name, tol)
    reference_sum_products(recipe, semiring_name, max_iter, tol) -> RefValues (dict + .status)
    brute_force_start_value(recipe, semiring_name)  literal derivation enumeration (cross-check, small cases)
    convert_weights(recipe, semiring_name) ; start_assignments(recipe) ; nested_get
    features_of(recipe) ; FEATURES
    enum_nonrecursive(tier, rng) ; enum_recursive(tier, rng) ; random_grammar(rng, ...)
"""
from __future__ import annotations
import itertools
import json
import math
import random
from typing import Any, Dict, Iterable, Iterator, List, Optional, Sequence, Tuple

INF = math.inf
SEMIRINGS = ("Real", "Log", "Viterbi", "Bool")
METHODS = ("fixed-point", "newton", "linear")

# --------------------------------------------------------------------------------------
# numbers <-> JSON
# --------------------------------------------------------------------------------------

def num(x) -> float:
    """JSON number or "inf"/"-inf" -> float."""
    if isinstance(x, str):
        if x in ("inf", "+inf"):
            return INF
        if x == "-inf":
            return -INF
        raise ValueError(f"bad number {x!r}")
    if isinstance(x, bool):
        raise ValueError("bool is not a weight")
    return float(x)


def jnum(x):
    """float -> JSON-able number."""
    if isinstance(x, bool):
        return x
    if x == INF:
        return "inf"
    if x == -INF:
        return "-inf"
    if x != x:
        return "nan"
    return x


def map_nested(f, w):
    if isinstance(w, (list, tuple)):
        return [map_nested(f, v) for v in w]
    return f(w)


def nested_get(nested, idx: Sequence[int]):
    for i in idx:
        nested = nested[i]
    return nested


def flatten(nested) -> list:
    if isinstance(nested, (list, tuple)):
        out = []
        for v in nested:
            out.extend(flatten(v))
        return out
    return [nested]


def nested_from(shape: Sequence[int], f):
    """nested list of the given shape with entries f(index tuple); scalar when shape == ()."""
    def rec(prefix, rest):
        if not rest:
            return f(tuple(prefix))
        return [rec(prefix + [i], rest[1:]) for i in range(rest[0])]
    return rec([], list(shape))


def convert_weight(w, semiring_name: str, log_space: bool = False):
    """Real-semiring weight (or log-weight when log_space) -> value in the named semiring."""
    w = num(w)
    if not log_space:
        if w < 0:
            raise ValueError("negative real weight")
        if semiring_name == "Real":
            return w
        if semiring_name in ("Log", "Viterbi"):
            if w == 0:
                return -INF
            if w == INF:
                return INF
            return math.log(w)
        if semiring_name == "Bool":
            return w > 0
    else:
        if semiring_name == "Real":
            if w == -INF:
                return 0.0
            if w == INF:
                return INF
            return math.exp(w)
        if semiring_name in ("Log", "Viterbi"):
            return w
        if semiring_name == "Bool":
            return w > -INF
    raise ValueError(f"unknown semiring {semiring_name}")


def convert_weights(recipe, semiring_name: str) -> Dict[str, Any]:
    """terminal -> nested list of semiring values (python floats / bools)."""
    lg = bool(recipe.get("weights_log", False))
    return {t: map_nested(lambda w: convert_weight(w, semiring_name, lg), ws)
            for t, ws in recipe["weights"].items()}


# --------------------------------------------------------------------------------------
# structure of a recipe
# --------------------------------------------------------------------------------------

def nonterminals(recipe) -> List[str]:
    return [n for n, d in recipe["edge_labels"].items() if not d["terminal"]]


def terminals(recipe) -> List[str]:
    return [n for n, d in recipe["edge_labels"].items() if d["terminal"]]


def shape_of(recipe, label: str) -> Tuple[int, ...]:
    return tuple(recipe["node_labels"][nl] for nl in recipe["edge_labels"][label]["type"])


def start_assignments(recipe) -> List[Tuple[int, ...]]:
    return list(itertools.product(*[range(s) for s in shape_of(recipe, recipe["start"])]))


def canonical(recipe) -> str:
    """Canonical JSON text of the grammar (meta and presentation are not part of it)."""
    core = {k: recipe[k] for k in ("node_labels", "edge_labels", "start", "rules", "weights")}
    if recipe.get("weights_log"):
        core["weights_log"] = True
    core = json.loads(json.dumps(core))
    core["weights"] = {t: map_nested(lambda w: jnum(num(w)), ws) for t, ws in core["weights"].items()}
    return json.dumps(core, sort_keys=True, separators=(",", ":"))


def nonterminal_deps(recipe) -> Dict[str, List[str]]:
    """X -> nonterminals occurring on the right-hand side of some rule of X (first-occurrence order)."""
    nts = nonterminals(recipe)
    deps: Dict[str, List[str]] = {x: [] for x in nts}
    for r in recipe["rules"]:
        for e in r["edges"]:
            if not recipe["edge_labels"][e["label"]]["terminal"]:
                if e["label"] not in deps[r["lhs"]]:
                    deps[r["lhs"]].append(e["label"])
    return deps


def _reach(recipe) -> Dict[str, set]:
    """strict transitive closure of the dependency relation."""
    deps = nonterminal_deps(recipe)
    reach = {x: set(ys) for x, ys in deps.items()}
    changed = True
    while changed:
        changed = False
        for x in reach:
            new = set()
            for y in reach[x]:
                new |= reach[y]
            if not new <= reach[x]:
                reach[x] |= new
                changed = True
    return reach


def is_recursive(recipe) -> bool:
    reach = _reach(recipe)
    return any(x in reach[x] for x in reach)


def sccs(recipe) -> List[List[str]]:
    """SCCs of the nonterminal dependency graph, dependencies first."""
    nts = nonterminals(recipe)
    reach = _reach(recipe)
    comps: List[List[str]] = []
    seen = set()
    for x in nts:
        if x in seen:
            continue
        comp = [x] + [y for y in nts if y != x and y in reach[x] and x in reach[y]]
        seen |= set(comp)
        comps.append(comp)
    # order: a component after everything it depends on
    out: List[List[str]] = []
    placed: set = set()
    while len(out) < len(comps):
        for c in comps:
            if c[0] in placed:
                continue
            need = set().union(*[reach[x] for x in c]) - set(c)
            if need <= placed:
                out.append(c)
                placed |= set(c)
                break
        else:  # pragma: no cover
            raise AssertionError("scc ordering")
    return out


def scc_is_cyclic(recipe, comp: Sequence[str]) -> bool:
    reach = _reach(recipe)
    return any(x in reach[x] for x in comp)


def is_linearly_recursive(recipe) -> bool:
    """Every rule of a nonterminal in a cyclic SCC has at most one rhs edge labelled in that SCC."""
    for comp in sccs(recipe):
        if not scc_is_cyclic(recipe, comp):
            continue
        cs = set(comp)
        for r in recipe["rules"]:
            if r["lhs"] in cs and sum(1 for e in r["edges"] if e["label"] in cs) > 1:
                return False
    return True


def reachable_nonterminals(recipe) -> List[str]:
    reach = _reach(recipe)
    s = recipe["start"]
    return [x for x in nonterminals(recipe) if x == s or x in reach[s]]


def validate(recipe, bound: bool = True) -> None:
    """Well-formedness of a recipe (and, when bound, the size bound of DESIGN §5 C01)."""
    nl, el = recipe["node_labels"], recipe["edge_labels"]
    assert recipe["start"] in el and not el[recipe["start"]]["terminal"]
    for t, d in el.items():
        for x in d["type"]:
            assert x in nl, (t, x)
        if d["terminal"]:
            assert t in recipe["weights"], t
            ws = recipe["weights"][t]
            shp = shape_of(recipe, t)
            def chk(w, s):
                if not s:
                    assert not isinstance(w, list), (t, w)
                    return
                assert isinstance(w, list) and len(w) == s[0], (t, w, s)
                for v in w:
                    chk(v, s[1:])
            chk(ws, shp)
    for r in recipe["rules"]:
        assert r["lhs"] in el and not el[r["lhs"]]["terminal"]
        assert [r["nodes"][i] for i in r["ext"]] == list(el[r["lhs"]]["type"]), r
        assert len(set(r["ext"])) == len(r["ext"]), "duplicate external node"
        for e in r["edges"]:
            assert [r["nodes"][i] for i in e["att"]] == list(el[e["label"]]["type"]), (r, e)
    if bound:
        assert len(nl) <= 2 and all(s in (1, 2, 3) for s in nl.values())
        nts = nonterminals(recipe)
        assert len(nts) <= 3
        for x in nts:
            assert sum(1 for r in recipe["rules"] if r["lhs"] == x) <= 3
        for d in el.values():
            assert len(d["type"]) <= 2
        for r in recipe["rules"]:
            assert len(r["nodes"]) <= 3 and len(r["edges"]) <= 3


# --------------------------------------------------------------------------------------
# reference semantics (no fggs, no torch)
# --------------------------------------------------------------------------------------

class _Real:
    name = "Real"
    zero, one = 0.0, 1.0
    @staticmethod
    def add(a, b):
        return a + b
    @staticmethod
    def mul(a, b):
        if a == 0 or b == 0:
            return 0.0          # 0 x inf = 0
        return a * b


class _Log:
    name = "Log"
    zero, one = -INF, 0.0
    @staticmethod
    def add(a, b):
        if a == -INF:
            return b
        if b == -INF:
            return a
        if a == INF or b == INF:
            return INF
        m = a if a > b else b
        return m + math.log1p(math.exp(-abs(a - b)))
    @staticmethod
    def mul(a, b):
        if a == -INF or b == -INF:
            return -INF         # log 0 + log inf = log 0
        return a + b


class _Viterbi:
    name = "Viterbi"
    zero, one = -INF, 0.0
    @staticmethod
    def add(a, b):
        return a if a >= b else b
    mul = _Log.mul


class _Bool:
    name = "Bool"
    zero, one = False, True
    @staticmethod
    def add(a, b):
        return bool(a or b)
    @staticmethod
    def mul(a, b):
        return bool(a and b)


_SR = {"Real": _Real, "Log": _Log, "Viterbi": _Viterbi, "Bool": _Bool}


class RefValues(dict):
    """{nonterminal: nested list}; .status is "finite" (least fixed point reached, entries may
    still be +inf when weights are) or "divergent" (no convergence within the budget / > 1e300)."""
    status: str = "finite"
    iterations: int = 0
    scc_status: Dict[str, str]

    def has_inf(self) -> bool:
        return any((not isinstance(v, bool)) and v == INF for x in self.values() for v in flatten(x))


def _compile(recipe):
    nl, el = recipe["node_labels"], recipe["edge_labels"]
    rules: Dict[str, list] = {x: [] for x in nonterminals(recipe)}
    for r in recipe["rules"]:
        sizes = [nl[l] for l in r["nodes"]]
        ext = list(r["ext"])
        internal = [i for i in range(len(sizes)) if i not in ext]
        edges = [(e["label"], tuple(e["att"]), bool(el[e["label"]]["terminal"])) for e in r["edges"]]
        rules[r["lhs"]].append((sizes, ext, internal, edges))
    return rules


def _table(nested, shape) -> Dict[Tuple[int, ...], Any]:
    return {idx: nested_get(nested, idx) for idx in itertools.product(*[range(s) for s in shape])}


def _rule_value(sr, rule, ext_asst, tw, val):
    """semiring-sum over the internal nodes of the semiring-product of all edge factors."""
    sizes, ext, internal, edges = rule
    asst: List[Optional[int]] = [None] * len(sizes)
    for i, v in zip(ext, ext_asst):
        asst[i] = v
    total = sr.zero
    for inner in itertools.product(*[range(sizes[i]) for i in internal]):
        for i, v in zip(internal, inner):
            asst[i] = v
        p = sr.one
        for label, att, term in edges:
            key = tuple(asst[i] for i in att)
            p = sr.mul(p, tw[label][key] if term else val[label][key])
        total = sr.add(total, p)
    return total


def _eval_nt(sr, rules_x, shape, tw, val):
    out = {}
    for a in itertools.product(*[range(s) for s in shape]):
        t = sr.zero
        for rule in rules_x:
            t = sr.add(t, _rule_value(sr, rule, a, tw, val))
        out[a] = t
    return out


def reference_sum_products(recipe, semiring_name: str = "Real", max_iter: int = 100000,
                           tol: float = 1e-13, depth: Optional[int] = None) -> RefValues:
    """Sum-product of every nonterminal, from the definition.

    value(X)[a] = (+) over rules r of X, (+) over assignments to the internal nodes of r,
                  (x) over the edges of r of (terminal weight | value of the nonterminal) at the
                  edge's attachment assignment;  0 x inf = 0; edgeless nodes are still summed
                  over; nonterminals without rules are zero.
    Non-recursive SCCs are evaluated once in dependency order; cyclic SCCs by Kleene iteration
    from zero (iterate j = sum over derivations of depth <= j): Bool/Viterbi until stationary,
    Real/Log until the change is < tol.  `depth` (optional) stops every cyclic SCC after that
    many iterations instead (bounded-depth sums; status stays "finite").
    """
    sr = _SR[semiring_name]
    rules = _compile(recipe)
    tws = convert_weights(recipe, semiring_name)
    tw = {t: _table(tws[t], shape_of(recipe, t)) for t in tws}
    val: Dict[str, Dict[Tuple[int, ...], Any]] = {}
    res = RefValues()
    res.scc_status = {}
    total_iter = 0
    big = 1e300 if semiring_name == "Real" else math.log(1e300)
    for comp in sccs(recipe):
        shapes = {x: shape_of(recipe, x) for x in comp}
        if not scc_is_cyclic(recipe, comp):
            [x] = comp
            val[x] = _eval_nt(sr, rules[x], shapes[x], tw, val)
            res.scc_status[x] = "finite"
            continue
        for x in comp:
            val[x] = {a: sr.zero for a in itertools.product(*[range(s) for s in shapes[x]])}
        n_entries = sum(len(val[x]) for x in comp)
        if depth is not None:
            cap = depth
        elif semiring_name in ("Bool", "Viterbi"):
            cap = min(max_iter, max(64, 4 * (n_entries + 2)))
        else:
            cap = max_iter
        status = "divergent"
        for it in range(cap):
            new = {x: _eval_nt(sr, rules[x], shapes[x], tw, val) for x in comp}
            total_iter += 1
            stationary = True
            blown = False
            for x in comp:
                for a, v in new[x].items():
                    o = val[x][a]
                    if semiring_name in ("Bool", "Viterbi"):
                        if v != o:
                            stationary = False
                    else:
                        if v == o:
                            continue
                        if v in (INF, -INF) or o in (INF, -INF):
                            stationary = False
                        else:
                            scale = max(1.0, abs(v)) if semiring_name == "Real" else 1.0
                            if abs(v - o) >= tol * scale:
                                stationary = False
                            if v > big:
                                blown = True
            for x in comp:
                val[x] = new[x]
            if blown:
                break
            if stationary:
                status = "finite"
                break
        if depth is not None:
            status = "finite"
        for x in comp:
            res.scc_status[x] = status
        if status != "finite":
            res.status = "divergent"
    for x in nonterminals(recipe):
        shp = shape_of(recipe, x)
        res[x] = nested_from(shp, lambda idx, x=x: val[x][idx])
    res.iterations = total_iter
    return res


def has_unit_cycle(recipe) -> bool:
    """Viterbi view: is there a derivation cycle of log-weight exactly 0 through finite values?
    Test: raise every finite entry of the max-plus least fixed point L of the cyclic SCCs by d > 0;
    a zero-weight cycle makes F(L + d) >= L + d somewhere."""
    ref = reference_sum_products(recipe, "Viterbi")
    if ref.status != "finite":
        return False
    rules = _compile(recipe)
    tws = convert_weights(recipe, "Viterbi")
    tw = {t: _table(tws[t], shape_of(recipe, t)) for t in tws}
    val = {x: _table(ref[x], shape_of(recipe, x)) for x in ref}
    d = 0.5
    for comp in sccs(recipe):
        if not scc_is_cyclic(recipe, comp):
            continue
        up = dict(val)
        for x in comp:
            up[x] = {a: (v + d if v > -INF else v) for a, v in val[x].items()}
        for x in comp:
            new = _eval_nt(_Viterbi, rules[x], shape_of(recipe, x), tw, up)
            if any(v > -INF and new[a] >= v + d - 1e-9 for a, v in val[x].items()):
                return True
    return False


def brute_force_start_value(recipe, semiring_name: str = "Real", max_nodes: int = 9, max_derivations: int = 400,
                            max_depth: int = 6):
    """The statement of C01 taken literally (cross-check of reference_sum_products): enumerate every
    derivation tree of the start symbol (up to max_depth nested rule applications -- all of them for a
    non-recursive grammar), build the derived factor graph (nodes: the start's external nodes plus
    a fresh copy of the internal nodes of every rule instance; factors: the terminal edges), and
    sum over all assignments to its nodes the product of the factor weights.  Returns the nested list
    indexed by the start's external assignment, or None when a derived graph has more than max_nodes
    nodes or there are more than max_derivations derivations."""
    sr = _SR[semiring_name]
    el, nl = recipe["edge_labels"], recipe["node_labels"]
    tws = convert_weights(recipe, semiring_name)
    rules_of: Dict[str, list] = {x: [] for x in nonterminals(recipe)}
    for r in recipe["rules"]:
        rules_of[r["lhs"]].append(r)

    class TooBig(Exception):
        pass

    def expand(nt: str, ext_ids: Tuple[int, ...], sizes: Tuple[int, ...], depth: int):
        """-> list of (sizes of all nodes so far, factors) ; a factor is (terminal label, global node ids)."""
        if depth > max_depth:
            return []
        out = []
        for r in rules_of[nt]:
            ids: List[Optional[int]] = [None] * len(r["nodes"])
            for j, gid in zip(r["ext"], ext_ids):
                ids[j] = gid
            sz = list(sizes)
            for j, l in enumerate(r["nodes"]):
                if ids[j] is None:
                    ids[j] = len(sz)
                    sz.append(nl[l])
            if len(sz) > max_nodes:
                raise TooBig()
            partial = [(tuple(sz), [])]
            for e in r["edges"]:
                g_att = tuple(ids[j] for j in e["att"])
                nxt = []
                for psz, pf in partial:
                    if el[e["label"]]["terminal"]:
                        nxt.append((psz, pf + [(e["label"], g_att)]))
                    else:
                        for csz, cf in expand(e["label"], g_att, psz, depth + 1):
                            nxt.append((csz, pf + cf))
                partial = nxt
                if len(partial) > max_derivations:
                    raise TooBig()
            out.extend(partial)
            if len(out) > max_derivations:
                raise TooBig()
        return out

    s = recipe["start"]
    shp = shape_of(recipe, s)
    try:
        derivs = expand(s, tuple(range(len(shp))), tuple(shp), 0)
    except TooBig:
        return None

    def value(a):
        total = sr.zero
        for sz, factors in derivs:
            inner = [range(n) for n in sz[len(shp):]]
            for rest in itertools.product(*inner):
                asst = tuple(a) + rest
                p = sr.one
                for t, gids in factors:
                    p = sr.mul(p, nested_get(tws[t], [asst[g] for g in gids]))
                total = sr.add(total, p)
        return total
    return nested_from(shp, value)


# --------------------------------------------------------------------------------------
# building the real objects
# --------------------------------------------------------------------------------------

def _dtype(dtype):
    import torch
    if dtype is None:
        return torch.get_default_dtype()
    if isinstance(dtype, str):
        return {"float32": torch.float32, "float64": torch.float64, "bool": torch.bool}[dtype]
    return dtype


def make_semiring(semiring_name: str, dtype=None):
    import fggs
    dt = _dtype(dtype)
    if semiring_name == "Real":
        return fggs.RealSemiring(dtype=dt)
    if semiring_name == "Log":
        return fggs.LogSemiring(dtype=dt)
    if semiring_name == "Viterbi":
        return fggs.ViterbiSemiring(dtype=dt)
    if semiring_name == "Bool":
        return fggs.BoolSemiring()
    raise ValueError(semiring_name)


def build_fgg_info(recipe, semiring_name: str = "Real", dtype=None, presentation: Optional[dict] = None):
    """Build the fggs.FGG of a recipe.  Returns (fgg, info) with
    info = {"rules": [HRGRule per recipe rule], "nodes": [[Node]], "edges": [[Edge]], "labels": {name: EdgeLabel}}.

    presentation (all optional; default = recipe order, implicit ids, RangeDomain):
      "rule_order": permutation of rule numbers (order of add_rule)
      "node_order": {"<rule number>": permutation of node numbers}  (order of add_node)
      "edge_order": {"<rule number>": permutation of edge numbers}  (order of add_edge)
      "label_order": permutation of edge label names (order of add_edge_label), "labels_first": bool
      "ids": "implicit" | "explicit"      "domains": "range" | "finite"
    """
    import torch
    import fggs
    pres = dict(recipe.get("presentation") or {})
    pres.update(presentation or {})
    dt = torch.bool if semiring_name == "Bool" else _dtype(dtype)
    explicit = pres.get("ids", "implicit") == "explicit"
    nls = {n: fggs.NodeLabel(n) for n in recipe["node_labels"]}
    els = {}
    for name, d in recipe["edge_labels"].items():
        els[name] = fggs.EdgeLabel(name, [nls[x] for x in d["type"]],
                                   is_terminal=bool(d["terminal"]), is_nonterminal=not d["terminal"])
    fgg = fggs.FGG(els[recipe["start"]])
    doms = {}
    for n, size in recipe["node_labels"].items():
        if pres.get("domains", "range") == "finite":
            doms[n] = fggs.FiniteDomain([f"{n}v{i}" for i in range(size)])
        else:
            doms[n] = fggs.RangeDomain(size)
        fgg.add_domain(nls[n], doms[n])
    label_order = pres.get("label_order") or list(recipe["edge_labels"])
    if pres.get("labels_first", True):
        for name in label_order:
            fgg.add_edge_label(els[name])
    n_rules = len(recipe["rules"])
    info = {"rules": [None] * n_rules, "nodes": [None] * n_rules, "edges": [None] * n_rules, "labels": els}
    for ri in pres.get("rule_order") or range(n_rules):
        r = recipe["rules"][ri]
        g = fggs.Graph()
        nodes = [fggs.Node(nls[l], id=(f"r{ri}n{j}" if explicit else None)) for j, l in enumerate(r["nodes"])]
        edges = [fggs.Edge(els[e["label"]], [nodes[j] for j in e["att"]], id=(f"r{ri}e{k}" if explicit else None))
                 for k, e in enumerate(r["edges"])]
        for j in (pres.get("node_order") or {}).get(str(ri)) or range(len(nodes)):
            g.add_node(nodes[j])
        for k in (pres.get("edge_order") or {}).get(str(ri)) or range(len(edges)):
            g.add_edge(edges[k])
        g.ext = [nodes[j] for j in r["ext"]]
        rule = fggs.HRGRule(els[r["lhs"]], g)
        fgg.add_rule(rule)
        info["rules"][ri], info["nodes"][ri], info["edges"][ri] = rule, nodes, edges
    if not pres.get("labels_first", True):
        for name in label_order:
            fgg.add_edge_label(els[name])
    ws = convert_weights(recipe, semiring_name)
    for name in label_order:
        if recipe["edge_labels"][name]["terminal"]:
            t = torch.tensor(ws[name], dtype=dt)
            fgg.add_factor(els[name], fggs.FiniteFactor([doms[x] for x in recipe["edge_labels"][name]["type"]], t))
    return fgg, info


def build_fgg(recipe, semiring_name: str = "Real", dtype=None, presentation: Optional[dict] = None):
    return build_fgg_info(recipe, semiring_name, dtype, presentation)[0]


# --------------------------------------------------------------------------------------
# features
# --------------------------------------------------------------------------------------

FEATURES = ("edgeless_internal", "edgeless_external", "double_attach", "nullary",
            "nt_without_rules", "unreachable_nt", "start_arity1", "start_arity2",
            "zero_next_to_inf", "zero_rule_disconnected",
            "terminal_in_two_rules", "terminal_twice_in_rule")
_EXCLUSIVE = {frozenset(("start_arity1", "start_arity2"))}


def rule_features(recipe, r, ref: Optional[RefValues] = None) -> List[str]:
    """Local shape features of one rule (ref = Real reference values, needed for the zero/inf ones)."""
    el = recipe["edge_labels"]
    out = []
    att = set(i for e in r["edges"] for i in e["att"])
    n = len(r["nodes"])
    if any(i not in att and i not in r["ext"] for i in range(n)):
        out.append("edgeless_internal")
    if any(i not in att for i in r["ext"]):
        out.append("edgeless_external")
    if any(len(set(e["att"])) < len(e["att"]) for e in r["edges"]):
        out.append("double_attach")
    if any(el[e["label"]]["terminal"] and not e["att"] for e in r["edges"]):
        out.append("nullary")
    tl = [e["label"] for e in r["edges"] if el[e["label"]]["terminal"]]
    if len(set(tl)) < len(tl):
        out.append("terminal_twice_in_rule")
    lhs_rules = {}
    for q in recipe["rules"]:
        lhs_rules.setdefault(q["lhs"], 0)
    if any((not el[e["label"]]["terminal"]) and e["label"] not in lhs_rules for e in r["edges"]):
        out.append("uses_nt_without_rules")
    if ref is not None:
        sizes = [recipe["node_labels"][l] for l in r["nodes"]]
        tws = {t: recipe["weights"][t] for t in recipe["weights"]}
        lg = bool(recipe.get("weights_log"))
        zero_inf = False
        for a in itertools.product(*[range(s) for s in sizes]):
            fs = []
            for e in r["edges"]:
                idx = [a[i] for i in e["att"]]
                if el[e["label"]]["terminal"]:
                    fs.append(convert_weight(nested_get(tws[e["label"]], idx), "Real", lg))
                else:
                    fs.append(nested_get(ref[e["label"]], idx))
            if any(f == 0 for f in fs) and any(f == INF for f in fs):
                zero_inf = True
        if zero_inf:
            out.append("zero_next_to_inf")
        if any(i not in att for i in range(n)):
            rules = _compile({**recipe, "rules": [r]})[r["lhs"]]
            tw = {t: _table(convert_weights(recipe, "Real")[t], shape_of(recipe, t)) for t in recipe["weights"]}
            val = {x: _table(ref[x], shape_of(recipe, x)) for x in ref}
            shp = shape_of(recipe, r["lhs"])
            if any(_rule_value(_Real, rules[0], a, tw, val) == 0
                   for a in itertools.product(*[range(s) for s in shp])):
                out.append("zero_rule_disconnected")
    return out


def features_of(recipe) -> List[str]:
    """Which of the listed shape features the grammar exhibits (measured, not declared)."""
    el = recipe["edge_labels"]
    try:
        ref = reference_sum_products(recipe, "Real", max_iter=200)
    except Exception:  # pragma: no cover
        ref = None
    fs = set()
    for r in recipe["rules"]:
        for f in rule_features(recipe, r, ref):
            if f in FEATURES:
                fs.add(f)
    nts = nonterminals(recipe)
    with_rules = set(r["lhs"] for r in recipe["rules"])
    if any(x not in with_rules for x in nts):
        fs.add("nt_without_rules")
    if len(reachable_nonterminals(recipe)) < len(nts):
        fs.add("unreachable_nt")
    ar = len(el[recipe["start"]]["type"])
    if ar == 1:
        fs.add("start_arity1")
    if ar == 2:
        fs.add("start_arity2")
    used: Dict[str, set] = {}
    for ri, r in enumerate(recipe["rules"]):
        for e in r["edges"]:
            if el[e["label"]]["terminal"]:
                used.setdefault(e["label"], set()).add(ri)
    if any(len(s) > 1 for s in used.values()):
        fs.add("terminal_in_two_rules")
    return [f for f in FEATURES if f in fs]


# --------------------------------------------------------------------------------------
# random grammars within the bound
# --------------------------------------------------------------------------------------

_SPECIAL = (0.0, 0.5, 1.0, 2.0, INF)
_TERMINAL_NAMES = ("a", "b", "c", "d", "e", "f")


def _draw_weight(rng: random.Random, want, hi: float = 2.0, allow_inf: bool = True):
    p0 = 0.35 if ("zero_next_to_inf" in want or "zero_rule_disconnected" in want) else 0.15
    pinf = (0.3 if "zero_next_to_inf" in want else 0.07) if allow_inf else 0.0
    u = rng.random()
    if u < p0:
        return 0.0
    u -= p0
    if u < pinf:
        return INF
    u -= pinf
    for s in (0.5, 1.0, 2.0):
        if s > hi:
            continue
        if u < 0.08:
            return s
        u -= 0.08
    return round(rng.uniform(0.0, hi), 4)


def random_grammar(rng: random.Random, want: Iterable[str] = (), recursive: bool = False,
                   hi: float = 2.0, allow_inf: bool = True) -> dict:
    """One random grammar within the bound.  `want` biases the choices towards the named
    features (not guaranteed; callers check with features_of).  Non-recursive grammars are acyclic
    by construction (a rule of the i-th nonterminal only uses later nonterminals)."""
    want = frozenset(want)
    def p(base, *feats, boosted=0.85):
        return boosted if any(f in want for f in feats) else base
    n_labels = rng.choice((1, 2))
    sizes = {f"N{i}": rng.choice((1, 2, 2, 3)) for i in range(n_labels)}
    labels = list(sizes)
    n_nt = rng.choice((1, 2, 2, 3, 3))
    if "nt_without_rules" in want or "unreachable_nt" in want:
        n_nt = max(n_nt, 2)
    if "nt_without_rules" in want and "unreachable_nt" in want and rng.random() < 0.7:
        n_nt = 3
    names = ["S", "X", "Y"][:n_nt]
    if "start_arity1" in want:
        s_ar = 1
    elif "start_arity2" in want:
        s_ar = 2
    else:
        s_ar = rng.choice((0, 0, 1, 2))
    el: Dict[str, dict] = {}
    for i, x in enumerate(names):
        ar = s_ar if i == 0 else rng.choice((0, 1, 1, 2))
        el[x] = {"type": [rng.choice(labels) for _ in range(ar)], "terminal": False}
    norules = unreach = None
    if n_nt >= 2 and rng.random() < p(0.15, "unreachable_nt"):
        unreach = names[-1]
    if n_nt >= 2 and rng.random() < p(0.15, "nt_without_rules"):
        cands = [x for x in names[1:] if x != unreach] or [names[-1]]
        norules = rng.choice(cands)
    weights: Dict[str, Any] = {}
    term_types: Dict[str, List[str]] = {}
    rules = []
    reuse_p = p(0.4, "terminal_in_two_rules", "terminal_twice_in_rule", boosted=0.8)
    for i, x in enumerate(names):
        if x == norules:
            continue
        for _ in range(rng.choice((1, 2, 2))):
            typ = el[x]["type"]
            n_int = rng.randint(0, 3 - len(typ))
            if "edgeless_internal" in want and len(typ) < 3:
                n_int = max(n_int, 1)
            nodes = list(typ) + [rng.choice(labels) for _ in range(n_int)]
            ext = list(range(len(typ)))
            if rng.random() < 0.3 and len(nodes) > 1:
                perm = list(range(len(nodes)))
                rng.shuffle(perm)            # new position of old node j is perm[j]
                new_nodes = [None] * len(nodes)
                for j, l in enumerate(nodes):
                    new_nodes[perm[j]] = l
                nodes, ext = new_nodes, [perm[j] for j in ext]
            avoid = set()
            internal = [j for j in range(len(nodes)) if j not in ext]
            if internal and rng.random() < p(0.2, "edgeless_internal", "zero_rule_disconnected", boosted=0.7):
                avoid.add(rng.choice(internal))
            if ext and rng.random() < p(0.15, "edgeless_external", boosted=0.7):
                avoid.add(rng.choice(ext))
            usable = [j for j in range(len(nodes)) if j not in avoid]
            edges = []
            for _e in range(rng.choice((0, 1, 2, 2, 3, 3))):
                if recursive:
                    nt_cands = [y for y in names if y != unreach or x == unreach]
                else:
                    nt_cands = [y for y in names[i + 1:] if y != unreach]
                made = False
                if nt_cands and rng.random() < (0.45 if recursive else 0.35):
                    y = rng.choice(nt_cands)
                    if y == norules and rng.random() > p(0.3, "nt_without_rules"):
                        y = rng.choice(nt_cands)
                    att = []
                    for l in el[y]["type"]:
                        c = [j for j in usable if nodes[j] == l]
                        if not c:
                            att = None
                            break
                        att.append(rng.choice(c))
                    if att is not None:
                        edges.append({"label": y, "att": att})
                        made = True
                if made:
                    continue
                ar = rng.choice((0, 1, 1, 2, 2))
                if rng.random() < p(0.0, "nullary", boosted=0.4):
                    ar = 0
                if not usable:
                    ar = 0
                if ar == 2 and rng.random() < p(0.15, "double_attach", boosted=0.6):
                    j = rng.choice(usable)
                    att = [j, j]
                else:
                    att = [rng.choice(usable) for _ in range(ar)]
                typ_t = [nodes[j] for j in att]
                same = [t for t, ty in term_types.items() if ty == typ_t]
                if same and (rng.random() < reuse_p or len(term_types) >= len(_TERMINAL_NAMES)):
                    t = rng.choice(same)
                elif len(term_types) < len(_TERMINAL_NAMES):
                    t = _TERMINAL_NAMES[len(term_types)]
                    term_types[t] = typ_t
                    el[t] = {"type": typ_t, "terminal": True}
                    shp = [sizes[l] for l in typ_t]
                    weights[t] = nested_from(shp, lambda idx: jnum(_draw_weight(rng, want, hi, allow_inf)))
                else:
                    continue
                edges.append({"label": t, "att": att})
            rules.append({"lhs": x, "nodes": nodes, "edges": edges, "ext": ext})
    recipe = {"node_labels": sizes, "edge_labels": el, "start": "S", "rules": rules, "weights": weights}
    return recipe


def _with_features(rng: random.Random, want, tries: int = 3000, **kw) -> Optional[dict]:
    want = frozenset(want)
    for _ in range(tries):
        g = random_grammar(rng, want, **kw)
        if kw.get("recursive"):
            if not is_recursive(g):
                continue
        elif is_recursive(g):  # pragma: no cover  (acyclic by construction)
            continue
        if want <= set(features_of(g)):
            return g
    return None


def feature_pairs() -> List[Tuple[str, ...]]:
    out: List[Tuple[str, ...]] = [(f,) for f in FEATURES]
    for f, g in itertools.combinations(FEATURES, 2):
        if frozenset((f, g)) in _EXCLUSIVE:
            continue
        out.append((f, g))
    return out


# hand-written seeds: one tiny grammar per listed feature (also used by the self-test)
def _mk(node_labels, edge_labels, start, rules, weights, meta=None, weights_log=False):
    el = {}
    for name, (typ, term) in edge_labels.items():
        el[name] = {"type": list(typ), "terminal": bool(term)}
    r = {"node_labels": dict(node_labels), "edge_labels": el, "start": start,
         "rules": [{"lhs": l, "nodes": list(n), "edges": [{"label": a, "att": list(t)} for a, t in e], "ext": list(x)}
                   for (l, n, e, x) in rules],
         "weights": {t: map_nested(jnum, w) for t, w in weights.items()}}
    if weights_log:
        r["weights_log"] = True
    if meta:
        r["meta"] = meta
    return r


def handwritten_nonrecursive() -> List[dict]:
    T, N = True, False
    out = []
    for d in (1, 2, 3):
        vec = [0.0, 0.5, 2.0][:d]
        # zero-weight rule next to an edgeless internal node
        out.append(_mk({"N0": d}, {"S": ([], N), "a": (["N0"], T)}, "S",
                       [("S", ["N0", "N0"], [("a", [0])], [])], {"a": [0.0] * d},
                       {"family": "zero-rule-edgeless-internal"}))
        # same, partially zero, start arity 1
        out.append(_mk({"N0": d}, {"S": (["N0"], N), "a": (["N0"], T)}, "S",
                       [("S", ["N0", "N0"], [("a", [0])], [0])], {"a": vec},
                       {"family": "zero-entry-edgeless-internal-arity1"}))
        # edgeless external node, start arity 2
        out.append(_mk({"N0": d}, {"S": (["N0", "N0"], N), "a": (["N0"], T)}, "S",
                       [("S", ["N0", "N0"], [("a", [0])], [0, 1])], {"a": vec},
                       {"family": "edgeless-external-arity2"}))
        # an edge attached twice to one node
        mat = [[(i + 1) * 0.5 if i != j else (0.0 if i == 0 else 1.0) for j in range(d)] for i in range(d)]
        out.append(_mk({"N0": d}, {"S": ([], N), "a": (["N0", "N0"], T)}, "S",
                       [("S", ["N0"], [("a", [0, 0])], [])], {"a": mat}, {"family": "double-attach"}))
        # zero next to inf
        out.append(_mk({"N0": d}, {"S": ([], N), "a": (["N0"], T), "b": (["N0"], T)}, "S",
                       [("S", ["N0"], [("a", [0]), ("b", [0])], [])],
                       {"a": [0.0, 1.0, INF][:d], "b": [INF, 2.0, 0.0][:d]}, {"family": "zero-next-to-inf"}))
        # nonterminal without rules / unreachable nonterminal / nullary factor
        out.append(_mk({"N0": d}, {"S": ([], N), "X": (["N0"], N), "Y": ([], N), "a": ([], T), "b": (["N0"], T)}, "S",
                       [("S", ["N0"], [("X", [0])], []), ("S", [], [("a", [])], []),
                        ("Y", ["N0"], [("b", [0]), ("a", [])], [])],
                       {"a": 0.5, "b": [1.0, 2.0, 0.5][:d]}, {"family": "norules-unreachable-nullary"}))
        # the same terminal twice in one rule and in two rules, through a nonterminal of arity 1
        out.append(_mk({"N0": d}, {"S": ([], N), "X": (["N0"], N), "a": (["N0"], T)}, "S",
                       [("S", ["N0", "N0"], [("a", [0]), ("a", [1]), ("X", [0])], []),
                        ("X", ["N0"], [("a", [0])], [0]), ("X", ["N0", "N0"], [], [0])],
                       {"a": [0.5, 2.0, 1.0][:d]}, {"family": "shared-terminal"}))
        # infinity alone; inf plus finite
        out.append(_mk({"N0": d}, {"S": (["N0"], N), "a": (["N0"], T), "b": ([], T)}, "S",
                       [("S", ["N0"], [("a", [0])], [0]), ("S", ["N0"], [("b", [])], [0])],
                       {"a": [INF, 0.0, 1.0][:d], "b": 0.0}, {"family": "inf-and-zero-rules"}))
    # empty right-hand side, rule with only edgeless nodes
    out.append(_mk({"N0": 2, "N1": 3}, {"S": ([], N)}, "S", [("S", [], [], [])], {}, {"family": "empty-rhs"}))
    out.append(_mk({"N0": 2, "N1": 3}, {"S": (["N1"], N)}, "S", [("S", ["N0", "N1", "N1"], [], [1])], {},
                   {"family": "only-edgeless-nodes"}))
    out.append(_mk({"N0": 2}, {"S": ([], N)}, "S", [], {}, {"family": "start-without-rules"}))
    return out


def enum_nonrecursive(tier: str, rng: random.Random) -> Iterator[dict]:
    """Non-recursive grammars within the bound: hand-written seeds, then every listed feature and
    every compatible pair of listed features (covering array, `reps` grammars each), then
    unconstrained random ones.  Deterministic in rng; duplicates (canonical) are dropped."""
    reps, n_random = (2, 140) if tier == "quick" else (24, 9000)
    seen = set()
    def fresh(g):
        c = canonical(g)
        if c in seen:
            return False
        seen.add(c)
        return True
    for g in handwritten_nonrecursive():
        validate(g)
        if fresh(g):
            yield g
    for combo in feature_pairs():
        for _ in range(reps):
            g = _with_features(rng, combo)
            if g is None:  # pragma: no cover
                raise AssertionError(f"generator cannot realise {combo}")
            g["meta"] = {"family": "cover:" + "+".join(combo)}
            if fresh(g):
                yield g
    for _ in range(n_random):
        g = random_grammar(rng, ())
        g["meta"] = {"family": "random"}
        if fresh(g):
            yield g


# --------------------------------------------------------------------------------------
# recursive families
# --------------------------------------------------------------------------------------

def handwritten_recursive() -> List[dict]:
    """Families of DESIGN §5 C02.  meta keys: family; semirings (restriction, default all four);
    budgets (restriction of C02's (tol,kmax) pairs: "generous"/"tight"); divergent_in (semirings
    where the value is known to be infinite: nothing is demanded of the library there)."""
    T, N = True, False
    out = []
    VB = ["Viterbi", "Bool"]
    # 1. single self-loop  S -> X ; X -> X c | b   value b/(1-w)
    for w in (0.3, 0.9, 1.0):
        for b in (1.0, 0.5):
            meta = {"family": f"selfloop-w{w}"}
            if w == 1.0:
                meta["divergent_in"] = ["Real", "Log"]
            out.append(_mk({"N0": 2}, {"S": ([], N), "X": ([], N), "c": ([], T), "b": ([], T)}, "S",
                           [("S", [], [("X", [])], []), ("X", [], [("X", []), ("c", [])], []), ("X", [], [("b", [])], [])],
                           {"c": w, "b": b}, meta))
    # start symbol itself recursive
    out.append(_mk({"N0": 2}, {"S": ([], N), "c": ([], T), "b": ([], T)}, "S",
                   [("S", [], [("S", []), ("c", [])], []), ("S", [], [("b", [])], [])],
                   {"c": 0.3, "b": 2.0}, {"family": "selfloop-start"}))
    # self-loop whose cycle weight is summed over an internal node / an edgeless internal node
    for d in (2, 3):
        out.append(_mk({"N0": d}, {"S": ([], N), "X": ([], N), "t": (["N0"], T), "b": ([], T)}, "S",
                       [("S", [], [("X", [])], []), ("X", ["N0"], [("X", []), ("t", [0])], []), ("X", [], [("b", [])], [])],
                       {"t": [0.2, 0.1, 0.3][:d], "b": 1.0}, {"family": "selfloop-internal-node"}))
        out.append(_mk({"N0": d}, {"S": ([], N), "X": ([], N), "c": ([], T), "b": ([], T)}, "S",
                       [("S", [], [("X", [])], []), ("X", ["N0"], [("X", []), ("c", [])], []), ("X", [], [("b", [])], [])],
                       {"c": 0.25, "b": 1.0}, {"family": "selfloop-edgeless-internal"}))
    # weight-one cycle through an edgeless internal node of a size-1 domain
    out.append(_mk({"N0": 1}, {"S": ([], N), "X": ([], N), "b": ([], T)}, "S",
                   [("S", [], [("X", [])], []), ("X", ["N0"], [("X", [])], []), ("X", [], [("b", [])], [])],
                   {"b": 0.5}, {"family": "selfloop-unit-rule", "divergent_in": ["Real", "Log"]}))
    # 2. recursion through a nonterminal of arity 1:  X(n) -> t(n,m) X(m) | b(n)
    mats = {2: [[0.2, 0.3], [0.1, 0.4]], 3: [[0.1, 0.2, 0.0], [0.3, 0.0, 0.2], [0.0, 0.5, 0.1]]}
    for d in (2, 3):
        bvec = [1.0, 0.0, 0.5][:d]
        for start_ar in (0, 1):
            if start_ar == 0:
                srule = ("S", ["N0"], [("X", [0])], [])
                styp: List[str] = []
            else:
                srule = ("S", ["N0"], [("X", [0])], [0])
                styp = ["N0"]
            out.append(_mk({"N0": d}, {"S": (styp, N), "X": (["N0"], N), "t": (["N0", "N0"], T), "b": (["N0"], T)}, "S",
                           [srule, ("X", ["N0", "N0"], [("t", [0, 1]), ("X", [1])], [0]), ("X", ["N0"], [("b", [0])], [0])],
                           {"t": mats[d], "b": bvec}, {"family": f"arity1-linear-start{start_ar}"}))
    # weight-one entries on a cycle (Viterbi / Bool only; Real diverges)
    out.append(_mk({"N0": 2}, {"S": (["N0"], N), "X": (["N0"], N), "t": (["N0", "N0"], T), "b": (["N0"], T)}, "S",
                   [("S", ["N0"], [("X", [0])], [0]), ("X", ["N0", "N0"], [("t", [0, 1]), ("X", [1])], [0]),
                    ("X", ["N0"], [("b", [0])], [0])],
                   {"t": [[1.0, 0.5], [1.0, 1.0]], "b": [0.25, 0.0]},
                   {"family": "arity1-weight-one-cycle", "divergent_in": ["Real", "Log"]}))
    # arity 2:  X(n,m) -> t(n,k) X(k,m) | e(n,m)
    out.append(_mk({"N0": 2}, {"S": (["N0", "N0"], N), "X": (["N0", "N0"], N), "t": (["N0", "N0"], T), "e": (["N0", "N0"], T)}, "S",
                   [("S", ["N0", "N0"], [("X", [0, 1])], [0, 1]),
                    ("X", ["N0", "N0", "N0"], [("t", [0, 2]), ("X", [2, 1])], [0, 1]),
                    ("X", ["N0", "N0"], [("e", [0, 1])], [0, 1])],
                   {"t": [[0.2, 0.3], [0.1, 0.4]], "e": [[1.0, 0.0], [0.0, 1.0]]}, {"family": "arity2-linear"}))
    # recursive call attached twice to one node, external node edgeless in the recursive rule
    out.append(_mk({"N0": 2}, {"S": ([], N), "X": (["N0", "N0"], N), "c": ([], T), "e": (["N0", "N0"], T)}, "S",
                   [("S", ["N0", "N0"], [("X", [0, 1])], []),
                    ("X", ["N0", "N0"], [("X", [0, 0]), ("c", [])], [0, 1]),
                    ("X", ["N0", "N0"], [("e", [0, 1])], [0, 1])],
                   {"c": 0.5, "e": [[1.0, 2.0], [0.5, 0.0]]}, {"family": "arity2-double-attach-edgeless-ext"}))
    # 3. mutual recursion  X -> Y a ; Y -> X b | c
    for a, b in ((0.5, 0.6), (0.9, 0.9), (1.0, 1.0)):
        meta = {"family": f"mutual-{a}-{b}"}
        if a * b >= 1:
            meta["divergent_in"] = ["Real", "Log"]
        out.append(_mk({"N0": 2}, {"S": ([], N), "X": ([], N), "Y": ([], N), "a": ([], T), "b": ([], T), "c": ([], T)}, "S",
                       [("S", [], [("X", [])], []), ("X", [], [("Y", []), ("a", [])], []),
                        ("Y", [], [("X", []), ("b", [])], []), ("Y", [], [("c", [])], [])],
                       {"a": a, "b": b, "c": 0.5}, meta))
    # mutual recursion with arity 1 and two node labels
    out.append(_mk({"N0": 2, "N1": 3}, {"S": ([], N), "X": (["N0"], N), "Y": (["N1"], N),
                                         "t": (["N0", "N1"], T), "u": (["N1", "N0"], T), "b": (["N1"], T)}, "S",
                   [("S", ["N0"], [("X", [0])], []),
                    ("X", ["N0", "N1"], [("t", [0, 1]), ("Y", [1])], [0]),
                    ("Y", ["N1", "N0"], [("u", [0, 1]), ("X", [1])], [0]),
                    ("Y", ["N1"], [("b", [0])], [0])],
                   {"t": [[0.3, 0.0, 0.2], [0.1, 0.4, 0.0]], "u": [[0.5, 0.1], [0.0, 0.3], [0.2, 0.2]], "b": [1.0, 0.5, 0.0]},
                   {"family": "mutual-arity1"}))
    # 4. non-linear  X -> X X | a
    for a in (0.1, 0.2, 0.2499):
        meta = {"family": f"nonlinear-a{a}"}
        if a > 0.24:
            meta["budgets"] = ["tight"]     # near-critical: convergence too slow for the generous value clause
        out.append(_mk({"N0": 2}, {"S": ([], N), "X": ([], N), "a": ([], T)}, "S",
                       [("S", [], [("X", [])], []), ("X", [], [("X", []), ("X", [])], []), ("X", [], [("a", [])], [])],
                       {"a": a}, meta))
    out.append(_mk({"N0": 2}, {"S": ([], N), "a": ([], T), "b": ([], T)}, "S",
                   [("S", [], [("S", []), ("S", []), ("b", [])], []), ("S", [], [("a", [])], [])],
                   {"a": 0.2, "b": 0.9}, {"family": "nonlinear-start"}))
    # Viterbi/Bool: X -> X X | a with a = 1 (log-weight 0): every derivation has weight 0
    out.append(_mk({"N0": 2}, {"S": ([], N), "X": ([], N), "a": ([], T)}, "S",
                   [("S", [], [("X", [])], []), ("X", [], [("X", []), ("X", [])], []), ("X", [], [("a", [])], [])],
                   {"a": 1.0}, {"family": "nonlinear-a1", "divergent_in": ["Real", "Log"]}))
    # non-linear with arity 1:  X(n) -> X(m) t(n,m) X(n) | a(n)
    out.append(_mk({"N0": 2}, {"S": (["N0"], N), "X": (["N0"], N), "t": (["N0", "N0"], T), "a": (["N0"], T)}, "S",
                   [("S", ["N0"], [("X", [0])], [0]),
                    ("X", ["N0", "N0"], [("X", [1]), ("t", [0, 1]), ("X", [0])], [0]),
                    ("X", ["N0"], [("a", [0])], [0])],
                   {"t": [[0.5, 1.0], [0.0, 2.0]], "a": [0.1, 0.2]}, {"family": "nonlinear-arity1"}))
    # non-linear mutual:  X -> Y Y | a ; Y -> X b
    out.append(_mk({"N0": 2}, {"S": ([], N), "X": ([], N), "Y": ([], N), "a": ([], T), "b": ([], T)}, "S",
                   [("S", [], [("X", [])], []), ("X", [], [("Y", []), ("Y", [])], []), ("X", [], [("a", [])], []),
                    ("Y", [], [("X", []), ("b", [])], [])],
                   {"a": 0.2, "b": 0.8}, {"family": "nonlinear-mutual"}))
    # 5. chained SCCs: non-linear over linear, linear over non-linear
    out.append(_mk({"N0": 2}, {"S": ([], N), "X": ([], N), "Y": ([], N), "c": ([], T), "d": ([], T)}, "S",
                   [("S", [], [("X", [])], []), ("X", [], [("X", []), ("X", [])], []), ("X", [], [("Y", [])], []),
                    ("Y", [], [("Y", []), ("c", [])], []), ("Y", [], [("d", [])], [])],
                   {"c": 0.3, "d": 0.1}, {"family": "chain-nonlinear-over-linear"}))
    out.append(_mk({"N0": 2}, {"S": ([], N), "X": ([], N), "Y": ([], N), "c": ([], T), "a": ([], T)}, "S",
                   [("S", [], [("X", [])], []), ("X", [], [("X", []), ("c", [])], []), ("X", [], [("Y", [])], []),
                    ("Y", [], [("Y", []), ("Y", [])], []), ("Y", [], [("a", [])], [])],
                   {"c": 0.5, "a": 0.15}, {"family": "chain-linear-over-nonlinear"}))
    # start non-recursive, using a linear and a non-linear SCC side by side
    out.append(_mk({"N0": 2}, {"S": ([], N), "X": ([], N), "Y": ([], N), "c": ([], T), "a": ([], T)}, "S",
                   [("S", [], [("X", []), ("Y", [])], []), ("X", [], [("X", []), ("c", [])], []), ("X", [], [("a", [])], []),
                    ("Y", [], [("Y", []), ("Y", [])], []), ("Y", [], [("a", [])], [])],
                   {"c": 0.9, "a": 0.2}, {"family": "side-by-side-linear-nonlinear"}))
    # 6. a recursive nonterminal that derives nothing (no base case): least fixed point zero
    out.append(_mk({"N0": 2}, {"S": ([], N), "X": ([], N), "c": ([], T), "b": ([], T)}, "S",
                   [("S", [], [("X", [])], []), ("S", [], [("b", [])], []), ("X", [], [("X", []), ("c", [])], [])],
                   {"c": 0.5, "b": 2.0}, {"family": "no-base-case"}))
    out.append(_mk({"N0": 2}, {"S": ([], N), "X": (["N0"], N), "t": (["N0", "N0"], T), "b": (["N0"], T)}, "S",
                   [("S", ["N0", "N0"], [("X", [0])], []),
                    ("X", ["N0", "N0"], [("t", [0, 1]), ("X", [1])], [0]), ("X", ["N0"], [("b", [0])], [0])],
                   {"t": [[0.5, 0.0], [0.0, 0.0]], "b": [0.0, 1.0]}, {"family": "partly-zero-with-edgeless-internal"}))
    # a nonterminal whose (zero) value only gets an entry after the other values have stopped changing
    out.append(_mk({"N0": 2}, {"S": ([], N), "X": ([], N), "a": ([], T), "b": ([], T)}, "S",
                   [("S", [], [("X", []), ("a", [])], []), ("X", [], [("b", [])], []), ("X", [], [("S", []), ("X", [])], [])],
                   {"a": 0.5, "b": 0.0}, {"family": "late-zero-entry"}))
    out.append(_mk({"N0": 2, "N1": 1}, {"S": ([], N), "X": (["N1"], N), "a": (["N1"], T), "b": (["N1"], T), "d": (["N1", "N1"], T)}, "S",
                   [("S", ["N1"], [("X", [0]), ("a", [0])], []),
                    ("X", ["N1"], [("b", [0]), ("d", [0, 0])], [0]), ("X", ["N1"], [("S", []), ("X", [0])], [0])],
                   {"a": [0.35], "b": [0.4], "d": [[0.0]]}, {"family": "late-zero-entry"}))
    # 7. several linear rules with the same lhs and the same recursive nonterminal (coefficients add up)
    out.append(_mk({"N0": 2}, {"S": ([], N), "X": ([], N), "a": ([], T), "c": ([], T), "b": ([], T)}, "S",
                   [("S", [], [("X", [])], []), ("X", [], [("X", []), ("a", [])], []), ("X", [], [("X", []), ("c", [])], []),
                    ("X", [], [("b", [])], [])],
                   {"a": 0.3, "c": 0.2, "b": 1.0}, {"family": "linear-two-rules-same-pair"}))
    out.append(_mk({"N0": 2}, {"S": (["N0"], N), "X": (["N0"], N), "t": (["N0", "N0"], T), "u": (["N0", "N0"], T), "b": (["N0"], T)}, "S",
                   [("S", ["N0"], [("X", [0])], [0]),
                    ("X", ["N0", "N0"], [("t", [0, 1]), ("X", [1])], [0]),
                    ("X", ["N0", "N0"], [("X", [1]), ("u", [1, 0])], [0]),
                    ("X", ["N0"], [("b", [0])], [0])],
                   {"t": [[0.2, 0.3], [0.1, 0.0]], "u": [[0.0, 0.2], [0.1, 0.3]], "b": [1.0, 0.5]},
                   {"family": "linear-two-rules-same-pair-arity1"}))
    out.append(_mk({"N0": 2}, {"S": ([], N), "X": ([], N), "Y": ([], N), "a": ([], T), "c": ([], T), "b": ([], T)}, "S",
                   [("S", [], [("X", [])], []), ("X", [], [("Y", []), ("a", [])], []), ("X", [], [("c", []), ("Y", [])], []),
                    ("Y", [], [("X", []), ("a", [])], []), ("Y", [], [("b", [])], [])],
                   {"a": 0.4, "c": 0.5, "b": 1.0}, {"family": "linear-two-rules-same-pair-mutual"}))
    # 8. Log semiring, cycle log-weight slightly below 0, given as log-weights (exp of them is not
    #    representable, so star() must not go through 1 - exp(x)); value in closed form
    lb = math.log(0.5)
    for lc in (-1e-4, -1e-6, -1e-9, -1e-13):
        v = lb - math.log(-math.expm1(lc))
        out.append(_mk({"N0": 2}, {"S": ([], N), "X": ([], N), "c": ([], T), "b": ([], T)}, "S",
                       [("S", [], [("X", [])], []), ("X", [], [("X", []), ("c", [])], []), ("X", [], [("b", [])], [])],
                       {"c": lc, "b": lb},
                       {"family": f"log-near-one-cycle{lc:g}", "semirings": ["Log"], "methods": ["linear", "newton"],
                        "budgets": ["generous"], "closed_form": {"Log": {"S": v, "X": v}}}))
        out[-1]["weights_log"] = True
        out.append(_mk({"N0": 2}, {"S": ([], N), "X": ([], N), "Y": ([], N), "a": ([], T), "c": ([], T), "b": ([], T)}, "S",
                       [("S", [], [("X", [])], []), ("X", [], [("Y", []), ("a", [])], []), ("X", [], [("b", [])], []),
                        ("Y", [], [("X", []), ("c", [])], [])],
                       {"a": lc / 2, "c": lc / 2, "b": lb},
                       {"family": f"log-near-one-mutual{lc:g}", "semirings": ["Log"], "methods": ["linear", "newton"],
                        "budgets": ["generous"], "closed_form": {"Log": {"S": v, "X": v, "Y": v + lc / 2}}}))
        out[-1]["weights_log"] = True
    return out


def enum_recursive(tier: str, rng: random.Random) -> Iterator[dict]:
    """Recursive grammars: the hand-written families, then seeded random recursive grammars within
    the bound (weights in [0, hi], no inf; whether the Real value is finite is decided by the
    reference, see RefValues.status)."""
    n_random = 60 if tier == "quick" else 1500
    seen = set()
    for g in handwritten_recursive():
        validate(g)
        assert is_recursive(g)
        c = canonical(g)
        if c not in seen:
            seen.add(c)
            yield g
    made = 0
    tries = 0
    while made < n_random and tries < 50 * n_random:
        tries += 1
        hi = rng.choice((0.3, 0.6, 1.0))
        g = random_grammar(rng, (), recursive=True, hi=hi, allow_inf=False)
        if not is_recursive(g):
            continue
        c = canonical(g)
        if c in seen:
            continue
        seen.add(c)
        g["meta"] = {"family": f"random-recursive-hi{hi}"}
        made += 1
        yield g


# --------------------------------------------------------------------------------------
# comparing a library result with the reference
# --------------------------------------------------------------------------------------

def classify_entry(obs, exp, semiring_name: str, tol: float, real_zero_exact: bool = True) -> Optional[str]:
    """None when the observed entry agrees with the expected one, else the kind of mismatch.
    Bool exact; +-inf (the semiring zero of Log/Viterbi is -inf) must agree exactly; exact 0 of
    the Real semiring must be exactly 0 (unless real_zero_exact=False: then within tol, for results
    of numerical linear solves); finite values within tol * max(1, |exp|)."""
    if semiring_name == "Bool":
        return None if bool(obs) == bool(exp) and isinstance(obs, bool) else "wrong-bool"
    if obs != obs:
        return "nan"
    if exp == -INF:
        if obs == -INF:
            return None
        return "neginf-as-lowest-finite" if obs < -1e30 else "neginf-as-finite"
    if exp == INF:
        if obs == INF:
            return None
        return "posinf-as-finite" if obs > -INF else "posinf-as-neginf"
    if obs == INF:
        return "finite-as-posinf"
    if obs == -INF:
        return "finite-as-neginf"
    if semiring_name == "Real" and exp == 0 and real_zero_exact:
        return None if obs == 0 else "zero-as-nonzero"
    if abs(obs - exp) <= tol * max(1.0, abs(exp)):
        return None
    return "wrong-value"


def compare_dense(dense, exp_nested, semiring_name: str, tol: float,
                  real_zero_exact: bool = True) -> List[Tuple[Tuple[int, ...], Any, Any, str]]:
    """dense = torch tensor (result.to_dense()).  Returns [(index, observed, expected, kind)]."""
    shape = []
    e = exp_nested
    while isinstance(e, list):
        shape.append(len(e))
        e = e[0] if e else None
    if tuple(dense.shape) != tuple(shape):
        return [((), list(dense.shape), shape, "wrong-shape")]
    obs_nested = dense.tolist()
    out = []
    for idx in itertools.product(*[range(s) for s in shape]):
        o, x = nested_get(obs_nested, idx), nested_get(exp_nested, idx)
        k = classify_entry(o, x, semiring_name, tol, real_zero_exact)
        if k is not None:
            out.append((idx, o, x, k))
    return out


# --------------------------------------------------------------------------------------
# self-test
# --------------------------------------------------------------------------------------

def _close(a, b, rtol=1e-9):
    if isinstance(a, bool) or isinstance(b, bool):
        return bool(a) == bool(b)
    if a in (INF, -INF) or b in (INF, -INF):
        return a == b
    return abs(a - b) <= rtol * max(1.0, abs(a), abs(b))


def _selftest():
    import time
    t0 = time.time()
    T, N = True, False
    # closed forms
    g = [x for x in handwritten_recursive() if x["meta"]["family"] == "selfloop-w0.9"][0]
    r = reference_sum_products(g, "Real")
    assert r.status == "finite" and _close(r["S"], 10.0, 1e-10), (r, r.status)
    rl = reference_sum_products(g, "Log")
    assert _close(rl["S"], math.log(10.0), 1e-10), rl
    rv = reference_sum_products(g, "Viterbi")
    assert rv["S"] == 0.0 and rv.status == "finite", rv
    rb = reference_sum_products(g, "Bool")
    assert rb["S"] is True
    g = [x for x in handwritten_recursive() if x["meta"]["family"] == "nonlinear-a0.2"][0]
    r = reference_sum_products(g, "Real")
    assert _close(r["X"], (1 - math.sqrt(1 - 0.8)) / 2, 1e-10), r
    g = [x for x in handwritten_recursive() if x["meta"]["family"] == "selfloop-w1.0"][0]
    r = reference_sum_products(g, "Real", max_iter=2000)
    assert r.status == "divergent"
    rv = reference_sum_products(g, "Viterbi")
    assert rv.status == "finite" and rv["S"] == 0.0
    g = [x for x in handwritten_recursive() if x["meta"]["family"] == "arity1-linear-start1"][0]
    r = reference_sum_products(g, "Real")
    # (I - T) x = b
    Tm, b = [[0.2, 0.3], [0.1, 0.4]], [1.0, 0.0]
    det = (1 - Tm[0][0]) * (1 - Tm[1][1]) - Tm[0][1] * Tm[1][0]
    x0 = ((1 - Tm[1][1]) * b[0] + Tm[0][1] * b[1]) / det
    x1 = (Tm[1][0] * b[0] + (1 - Tm[0][0]) * b[1]) / det
    assert _close(r["S"][0], x0, 1e-10) and _close(r["S"][1], x1, 1e-10), (r["S"], x0, x1)
    # edgeless nodes count, 0 x inf = 0, nonterminal without rules is zero
    g = _mk({"N0": 3}, {"S": (["N0"], N), "X": ([], N), "a": (["N0"], T), "b": (["N0"], T)}, "S",
            [("S", ["N0", "N0", "N0"], [("a", [0]), ("b", [0])], [1]), ("S", ["N0"], [("X", [])], [0])],
            {"a": [0.0, 1.0, 2.0], "b": [INF, 0.5, 0.0]})
    validate(g)
    r = reference_sum_products(g, "Real")
    assert r["S"] == [1.5, 1.5, 1.5] and r["X"] == 0.0, r
    assert _close(reference_sum_products(g, "Log")["S"][0], math.log(1.5))
    assert _close(reference_sum_products(g, "Viterbi")["S"][0], math.log(0.5))
    assert reference_sum_products(g, "Viterbi")["X"] == -INF
    fs = features_of(g)
    assert "zero_next_to_inf" in fs and "edgeless_internal" in fs and "edgeless_external" in fs and "nt_without_rules" in fs, fs
    # Log reference == log of Real reference, Bool == (Real > 0), Viterbi <= Log on random grammars
    rng = random.Random(1)
    n = 0
    cover = {}
    for g in enum_nonrecursive("quick", rng):
        validate(g)
        assert not is_recursive(g)
        n += 1
        for f in itertools.combinations(features_of(g), 2):
            cover[f] = cover.get(f, 0) + 1
        rr = reference_sum_products(g, "Real")
        rl = reference_sum_products(g, "Log")
        rv = reference_sum_products(g, "Viterbi")
        rb = reference_sum_products(g, "Bool")
        for x in rr:
            for a, l, v, bb in zip(flatten(rr[x]), flatten(rl[x]), flatten(rv[x]), flatten(rb[x])):
                la = -INF if a == 0 else (INF if a == INF else math.log(a))
                assert _close(la, l, 1e-9), (canonical(g), x, a, l)
                assert bb == (a > 0), (canonical(g), x)
                assert v <= l + 1e-9 or v == l, (canonical(g), x, v, l)
    # the literal "sum over derivations x assignments of the derived factor graph" agrees with the reference
    n_bf = 0
    for g in enum_nonrecursive("quick", random.Random(1)):
        for sname in SEMIRINGS:
            bf = brute_force_start_value(g, sname)
            if bf is None:
                break
            n_bf += 1
            rv_ = reference_sum_products(g, sname)[g["start"]]
            for a, b in zip(flatten(bf), flatten(rv_)):
                assert _close(a, b, 1e-9), (canonical(g), sname, bf, rv_)
    assert n_bf > 600, n_bf
    g = [x for x in handwritten_recursive() if x["meta"]["family"] == "selfloop-w0.9"][0]
    for k in (1, 3, 6):     # derivations of bounded depth == Kleene iterate
        bf = brute_force_start_value(g, "Real", max_depth=k, max_derivations=10000, max_nodes=50)
        assert _close(bf, reference_sum_products(g, "Real", depth=k)["S"], 1e-12), (k, bf)
    missing = [p for p in feature_pairs() if len(p) == 2 and tuple(p) not in cover and tuple(reversed(p)) not in cover]
    assert not missing, missing
    nr = 0
    st = {"finite": 0, "divergent": 0}
    for g in enum_recursive("quick", random.Random(2)):
        validate(g)
        assert is_recursive(g)
        nr += 1
        r = reference_sum_products(g, "Real", max_iter=3000)
        st[r.status] += 1
        rb = reference_sum_products(g, "Bool")
        assert rb.status == "finite"
        if r.status == "finite":
            for x in r:
                for a, bb in zip(flatten(r[x]), flatten(rb[x])):
                    assert bb == (a > 0), (canonical(g), x, a, bb)
    # determinism
    a = [canonical(g) for g in itertools.islice(enum_nonrecursive("quick", random.Random(5)), 120)]
    b = [canonical(g) for g in itertools.islice(enum_nonrecursive("quick", random.Random(5)), 120)]
    assert a == b
    # the builder produces grammars the library accepts, reference == library on a plain case
    try:
        import torch, fggs  # noqa
    except Exception as e:  # pragma: no cover
        print("builder not tested:", e)
    else:
        g = _mk({"N0": 2}, {"S": ([], N), "X": (["N0"], N), "a": (["N0", "N0"], T), "b": (["N0"], T)}, "S",
                [("S", ["N0", "N0"], [("a", [0, 1]), ("X", [1])], []), ("X", ["N0"], [("b", [0])], [0])],
                {"a": [[0.5, 1.0], [2.0, 0.25]], "b": [1.0, 3.0]})
        ref = reference_sum_products(g, "Real")
        for pres in (None, {"ids": "explicit", "domains": "finite", "rule_order": [1, 0],
                            "node_order": {"0": [1, 0]}, "edge_order": {"0": [1, 0]}}):
            for sname in SEMIRINGS:
                f = build_fgg(g, sname, "float64", pres)
                z = fggs.sum_product(f, method="fixed-point", semiring=make_semiring(sname, "float64")).to_dense()
                exp = reference_sum_products(g, sname)["S"]
                assert _close(z.item(), exp, 1e-9), (sname, z, exp)
        assert _close(ref["S"], 0.5 * 1 + 1 * 3 + 2 * 1 + 0.25 * 3)
    print(f"gen_fgg self-test ok: {n} non-recursive ({n_bf} brute-force cross-checks), {nr} recursive ({st}), "
          f"{len(cover)} feature pairs covered, {time.time() - t0:.1f}s")


if __name__ == "__main__":
    _selftest()
# G-READY
