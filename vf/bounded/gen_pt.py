"""Typed-pattern generator "T" and dense oracle for fggs.indices.PatternedTensor.

JSON recipes
------------
axis   ::= ["P", i]                     physical axis number i of the tensor's pool
         | ["*", [axis, ...]]           ProductAxis built with productAxis ([] is unitAxis)
         | ["+", before, axis, after]   SumAxis

tensor ::= {"pool":   [sizes of the physical axes, each >= 2 or 0],
            "vaxes":  [axis, ...],
            "data":   flat row-major list for the pool shape (floats / ints / bools or the
                      strings "inf", "-inf", "nan"); for storage "expanded" the list has the
                      size of pool[1:] (the first physical axis is a stride-0 expansion),
            "default": number / bool / "inf" / "-inf" / "nan",
            "dtype":  "float64" | "float32" | "bool" | "int64",
            "storage": "contig" | "expanded" | "transposed"}

A *pattern* is a recipe without data/default/dtype: {"pool", "vaxes", "storage"}.

Denotation (dense_oracle; written without using fggs.indices): an axis denotes an
injective map from the values of its physical axes to a virtual index in [0, numel):
    P_i -> p[i];   product -> row-major mixed radix of the factors;   sum -> before + inner.
The tensor has size (numel(vaxis) ...), the element at (v_1..v_n) is data[p] if the
physical index tuple p is mapped to (v_1..v_n), else the default.  A pattern is well formed
iff every pool axis occurs in at least one vaxis (then p -> v is injective).

Public API
----------
build_pt(recipe) -> PatternedTensor   (fresh PhysicalAxis objects per call)
dense_oracle(recipe) -> torch.Tensor
canonical(recipe) -> str
shape_of(recipe), ax_numel(axis, pool), validate(recipe), enc(x), dec(x), same(a, b)
enum_axes(pool, numel_max, depth)                 -> iterator of axis recipes
enum_patterns(shape=None, numel_max=6, ndim_max=3, pool_max=3, tier="quick")
patterns_for_shape(shape, tier="quick")           -> list of patterns with size() == shape
all_shapes(numel_max, ndim_max, zero=False)
fill_data(pattern, rng, special=True, dtype="float64", default=0, storage=None) -> recipe
compatible(r1, r2, broadcast=False)  -> bool: the two patterns have a common index type (operands
                                         of binary ops / where / equal / project / einsum indices
                                         must be filtered with it; see "index types" below)
with_default(recipe, default), signature(pattern)

Counts (measured, `python -m vf.bounded.gen_pt [thorough]`):
  full enumeration (enum_patterns), depth<=2, numel<=6, ndim<=3, contiguous storage:
  1966 patterns without a zero-size physical axis (+ ~214k with pool (0,), (0,2) or (2,0))
  over 46 shapes (+4 zero-size shapes);
  patterns_for_shape quick: <= 36 per shape (e.g. (): 1, (2,): 7, (3,): 14, (2,2): 17,
  (6,): 34, (2,3): 33, (1,2,3): 36; 1147 over all 50 shapes), thorough: <= ~200 per shape.
"""
from __future__ import annotations
import itertools, json, math, random
from functools import lru_cache
from typing import Any, Dict, Iterator, List, Optional, Sequence, Tuple

import torch

DTYPES = {"float64": torch.float64, "float32": torch.float32,
          "bool": torch.bool, "int64": torch.int64}
SPECIALS = [0.0, 1.0, -1.0, 2.5, math.inf, -math.inf, math.nan]
DEFAULTS = [0.0, 1.0, -math.inf, math.inf, 2.5, math.nan]
UNIT = ["*", []]


# ----------------------------------------------------------------------------- scalars
def enc(x):
    """python number -> JSON value"""
    if isinstance(x, bool) or isinstance(x, int):
        return x
    x = float(x)
    if math.isnan(x): return "nan"
    if x == math.inf: return "inf"
    if x == -math.inf: return "-inf"
    return x


def dec(x):
    """JSON value -> python number"""
    if isinstance(x, str):
        return {"inf": math.inf, "-inf": -math.inf, "nan": math.nan}[x]
    return x


def canonical(recipe) -> str:
    return json.dumps(recipe, sort_keys=True, separators=(",", ":"))


def same(a: torch.Tensor, b: torch.Tensor) -> bool:
    """exact, NaN-aware equality of two tensors (shape, dtype, values)"""
    if a.dtype != b.dtype or tuple(a.size()) != tuple(b.size()):
        return False
    if a.is_floating_point():
        an, bn = torch.isnan(a), torch.isnan(b)
        if not torch.equal(an, bn): return False
        return bool(torch.equal(torch.where(an, torch.zeros_like(a), a),
                                torch.where(bn, torch.zeros_like(b), b)))
    return bool(torch.equal(a, b))


# ----------------------------------------------------------------------------- axis language (own interpreter)
def ax_numel(a, pool) -> int:
    k = a[0]
    if k == "P": return pool[a[1]]
    if k == "*":
        n = 1
        for f in a[1]: n *= ax_numel(f, pool)
        return n
    if k == "+": return a[1] + ax_numel(a[2], pool) + a[3]
    raise ValueError(f"bad axis recipe {a!r}")


def ax_eval(a, pool, p) -> int:
    """virtual index denoted by axis a at the physical index tuple p"""
    k = a[0]
    if k == "P": return p[a[1]]
    if k == "*":
        v = 0
        for f in a[1]:
            v = v * ax_numel(f, pool) + ax_eval(f, pool, p)
        return v
    return a[1] + ax_eval(a[2], pool, p)


def ax_fv(a) -> List[int]:
    k = a[0]
    if k == "P": return [a[1]]
    if k == "*": return [i for f in a[1] for i in ax_fv(f)]
    return ax_fv(a[2])


def ax_depth(a) -> int:
    k = a[0]
    if k == "P": return 0
    if k == "*": return 0 if not a[1] else 1 + max(ax_depth(f) for f in a[1])
    return 1 + ax_depth(a[2])


def shape_of(recipe) -> Tuple[int, ...]:
    return tuple(ax_numel(a, recipe["pool"]) for a in recipe["vaxes"])


def _prod(xs) -> int:
    n = 1
    for x in xs: n *= x
    return n


def data_len(recipe) -> int:
    pool = recipe["pool"]
    if recipe.get("storage", "contig") == "expanded":
        return _prod(pool[1:])
    return _prod(pool)


def validate(recipe) -> None:
    pool = recipe["pool"]
    for n in pool:
        if not (n == 0 or n >= 1):
            raise ValueError("pool sizes must be >= 0")
    used = set(i for a in recipe["vaxes"] for i in ax_fv(a))
    if used != set(range(len(pool))):
        raise ValueError(f"ill-formed pattern: pool axes {sorted(set(range(len(pool))) - used)} do not occur in vaxes")
    st = recipe.get("storage", "contig")
    if st not in ("contig", "expanded", "transposed"):
        raise ValueError(f"bad storage {st}")
    if st == "expanded" and not pool:
        raise ValueError("expanded storage needs a physical axis")
    if "data" in recipe and len(recipe["data"]) != data_len(recipe):
        raise ValueError(f"data has {len(recipe['data'])} elements, expected {data_len(recipe)}")


def dense_oracle(recipe) -> torch.Tensor:
    """The dense tensor a recipe denotes (independent of fggs.indices)."""
    validate(recipe)
    pool = list(recipe["pool"])
    vaxes = recipe["vaxes"]
    shape = shape_of(recipe)
    dtype = DTYPES[recipe.get("dtype", "float64")]
    default = dec(recipe.get("default", 0))
    data = [dec(x) for x in recipe["data"]]
    expanded = recipe.get("storage", "contig") == "expanded"
    n = _prod(shape)
    out = [default] * n
    written = set()
    for p in itertools.product(*[range(k) for k in pool]):
        lin = 0
        for a, s in zip(vaxes, shape):
            v = ax_eval(a, pool, p)
            if not (0 <= v < s):
                raise ValueError("ill-formed pattern: virtual index out of range")
            lin = lin * s + v
        if lin in written:
            raise ValueError("ill-formed pattern: not injective")
        written.add(lin)
        q = p[1:] if expanded else p
        ql = 0
        for i, k in zip(q, pool[1:] if expanded else pool):
            ql = ql * k + i
        out[lin] = data[ql]
    return torch.tensor(out, dtype=dtype).reshape(shape)


def backed_mask(recipe) -> torch.Tensor:
    """bool tensor of the virtual shape: True where an element is physically backed"""
    pool = list(recipe["pool"]); shape = shape_of(recipe)
    out = [False] * _prod(shape)
    for p in itertools.product(*[range(k) for k in pool]):
        lin = 0
        for a, s in zip(recipe["vaxes"], shape):
            lin = lin * s + ax_eval(a, pool, p)
        out[lin] = True
    return torch.tensor(out, dtype=torch.bool).reshape(shape)


# ----------------------------------------------------------------------------- building the real object
def build_axis(a, paxes):
    from fggs.indices import productAxis, SumAxis
    k = a[0]
    if k == "P": return paxes[a[1]]
    if k == "*": return productAxis(tuple(build_axis(f, paxes) for f in a[1]))
    if k == "+": return SumAxis(a[1], build_axis(a[2], paxes), a[3])
    raise ValueError(f"bad axis recipe {a!r}")


def build_physical(recipe) -> torch.Tensor:
    pool = list(recipe["pool"])
    dtype = DTYPES[recipe.get("dtype", "float64")]
    data = [dec(x) for x in recipe["data"]]
    st = recipe.get("storage", "contig")
    if st == "expanded":
        base = torch.tensor(data, dtype=dtype).reshape(pool[1:])
        return base.unsqueeze(0).expand(pool)
    t = torch.tensor(data, dtype=dtype).reshape(pool)
    if st == "transposed" and len(pool) >= 2:
        rev = tuple(reversed(range(len(pool))))
        return t.permute(rev).contiguous().permute(rev)   # same values, reversed strides
    return t


def build_pt(recipe):
    """recipe -> fggs.indices.PatternedTensor with fresh PhysicalAxis objects"""
    from fggs.indices import PatternedTensor, PhysicalAxis
    validate(recipe)
    paxes = tuple(PhysicalAxis(n) for n in recipe["pool"])
    vaxes = tuple(build_axis(a, paxes) for a in recipe["vaxes"])
    return PatternedTensor(build_physical(recipe), paxes, vaxes, dec(recipe.get("default", 0)))


# ----------------------------------------------------------------------------- enumeration of axes
def _factorizations(n: int, kmax: int = 3) -> List[Tuple[int, ...]]:
    """ordered factorizations of n into 2..kmax factors, each >= 2"""
    out = []
    def rec(rest, acc):
        if len(acc) >= 2 and rest == 1:
            out.append(tuple(acc)); return
        if len(acc) >= kmax: return
        for f in range(2, rest + 1):
            if rest % f == 0: rec(rest // f, acc + [f])
    rec(n, [])
    return out


def _axes(pool: Tuple[int, ...], n: int, depth: int, allow_product: bool, zero_sums: bool) -> List[Any]:
    return list(_axes_c(tuple(pool), n, depth, allow_product, zero_sums))


@lru_cache(maxsize=None)
def _axes_c(pool, n, depth, allow_product, zero_sums):
    """all axis recipes over pool with numel exactly n and nesting depth <= depth"""
    out: List[Any] = []
    if n == 1 and allow_product:
        out.append(UNIT)
    for i, k in enumerate(pool):
        if k == n: out.append(["P", i])
    if depth <= 0:
        return tuple(out)
    if allow_product:
        if n >= 4 or n in (0,):
            facs = _factorizations(n) if n > 0 else [(0, 2), (2, 0)]
            for fs in facs:
                choices = [_axes_c(pool, f, depth - 1, False, zero_sums) for f in fs]
                for combo in itertools.product(*choices):
                    out.append(["*", list(combo)])
    # sums
    for m in range(0, n + 1):
        if m == n and not zero_sums: continue
        if m == 0 and 0 not in pool: continue
        inners = _axes_c(pool, m, depth - 1, True, zero_sums)
        for inner in inners:
            for b in range(0, n - m + 1):
                out.append(["+", b, inner, n - m - b])
    return tuple(out)


def enum_axes(pool: Sequence[int], numel_max: int, depth: int, zero_sums: bool = False) -> Iterator[Any]:
    """all axis recipes over `pool` with numel <= numel_max and nesting depth <= depth
       (products are flat, of 2..3 non-product factors; SumAxis(0,e,0) only with zero_sums)"""
    for n in range(0, numel_max + 1):
        for a in _axes_c(tuple(pool), n, depth, True, zero_sums):
            yield a


def all_shapes(numel_max: int = 6, ndim_max: int = 3, zero: bool = False) -> List[Tuple[int, ...]]:
    out = []
    sizes = list(range(0 if zero else 1, numel_max + 1))
    for nd in range(0, ndim_max + 1):
        for s in itertools.product(sizes, repeat=nd):
            if _prod(s) <= numel_max: out.append(tuple(s))
    return out


def _pools(shape: Tuple[int, ...], pool_max: int) -> List[Tuple[int, ...]]:
    """candidate pools for a virtual shape: the physical numel cannot exceed the virtual numel"""
    n = _prod(shape)
    sizes = sorted(set(range(2, max(n, 2) + 1)))
    out: List[Tuple[int, ...]] = [()]
    for k in range(1, pool_max + 1):
        for p in itertools.product(sizes, repeat=k):
            if _prod(p) <= n: out.append(p)
    # zero-size physical axes (a few): a single 0 alone or next to one size-2 axis
    out += [(0,), (0, 2), (2, 0)]
    return out


def _patterns_of(shape: Tuple[int, ...], pool_max: int, depth: int, zero_sums: bool) -> Iterator[Dict[str, Any]]:
    for pool in _pools(shape, pool_max):
        per_dim = [_axes_c(pool, n, depth, True, zero_sums) for n in shape]
        if any(not c for c in per_dim): continue
        need = set(range(len(pool)))
        for combo in itertools.product(*per_dim):
            used = set(i for a in combo for i in ax_fv(a))
            if used != need: continue
            yield {"pool": list(pool), "vaxes": [a for a in combo], "storage": "contig"}


def enum_patterns(shape: Optional[Sequence[int]] = None, numel_max: int = 6, ndim_max: int = 3,
                  pool_max: int = 3, tier: str = "quick", depth: int = 2) -> Iterator[Dict[str, Any]]:
    """Full enumeration (no sampling) of the well-formed patterns {"pool","vaxes","storage":"contig"}
       of the given virtual shape (or of every shape with numel <= numel_max, ndim <= ndim_max,
       incl. a few zero-size shapes), axis nesting depth <= depth; SumAxis(0,e,0) only in the
       thorough tier."""
    shapes = [tuple(shape)] if shape is not None else \
        all_shapes(numel_max, ndim_max) + [(0,), (0, 2), (2, 0)]
    for s in shapes:
        yield from _patterns_of(s, pool_max, depth, tier == "thorough")


# ----------------------------------------------------------------------------- diverse subsets
def _skel(a) -> str:
    k = a[0]
    if k == "P": return "P"
    if k == "*": return "u" if not a[1] else "(" + "*".join(_skel(f) for f in a[1]) + ")"
    return "[" + ("b" if a[1] else "") + "+" + _skel(a[2]) + "+" + ("a" if a[3] else "") + "]"


def signature(pat) -> str:
    """feature class of a pattern: skeleton of every vaxis, how often each pool axis occurs,
       whether some axis is shared between two vaxes / inside one vaxis, zero-size pool axis,
       whether pool order differs from first-occurrence order."""
    occ = [i for a in pat["vaxes"] for i in ax_fv(a)]
    counts = sorted(occ.count(i) for i in range(len(pat["pool"])))
    across = any(len([1 for a in pat["vaxes"] if i in ax_fv(a)]) > 1 for i in range(len(pat["pool"])))
    within = any(ax_fv(a).count(i) > 1 for a in pat["vaxes"] for i in set(ax_fv(a)))
    first = []
    for i in occ:
        if i not in first: first.append(i)
    return "|".join(_skel(a) for a in pat["vaxes"]) + f";occ={counts};x={int(across)};w={int(within)}" \
           f";z={int(0 in pat['pool'])};perm={int(first != sorted(first))}"


def _dense_pattern(shape) -> Dict[str, Any]:
    pool, vaxes = [], []
    for n in shape:
        if n == 1: vaxes.append(UNIT)
        else:
            vaxes.append(["P", len(pool)]); pool.append(n)
    return {"pool": pool, "vaxes": vaxes, "storage": "contig"}


_CAP = {"quick": 24, "thorough": 150}
_ZCAP = {"quick": 2, "thorough": 8}
_PFS_CACHE: Dict[Tuple[Tuple[int, ...], str], List[Dict[str, Any]]] = {}


def _ax_features(a, inside: str, out: set) -> None:
    k = a[0]
    if k == "P":
        out.add("P-in-" + inside); return
    if k == "*":
        if not a[1]:
            out.add("unit-in-" + inside); return
        out.add("prod-in-" + inside)
        out.add(f"prod{len(a[1])}")
        if sum(1 for f in a[1] if f[0] == "P") >= 2: out.add("prod-of-physical")
        for f in a[1]: _ax_features(f, "prod", out)
        return
    out.add("sum-in-" + inside)
    out.add("sum-" + ("b" if a[1] else "") + ("a" if a[3] else "") + ("0" if not (a[1] or a[3]) else ""))
    _ax_features(a[2], "sum", out)


def features(pat) -> set:
    """atomic features used to make the small sets diverse"""
    out: set = set()
    for a in pat["vaxes"]: _ax_features(a, "top", out)
    pool = pat["pool"]
    out.add(f"pool{len(pool)}")
    for i in range(len(pool)):
        per = [ax_fv(a).count(i) for a in pat["vaxes"]]
        if sum(1 for c in per if c) > 1: out.add("shared-across-vaxes")
        if any(c > 1 for c in per): out.add("shared-inside-vaxis")
        depths = set()
        def rec(a, d):
            if a[0] == "P":
                if a[1] == i: depths.add(d)
            elif a[0] == "*":
                for f in a[1]: rec(f, d + 1)
            else: rec(a[2], d + 1)
        for a in pat["vaxes"]: rec(a, 0)
        if len(depths) > 1: out.add("axis-at-two-depths")
    occ = [i for a in pat["vaxes"] for i in ax_fv(a)]
    first = []
    for i in occ:
        if i not in first: first.append(i)
    if first != sorted(first): out.add("pool-order-permuted")
    return out


def _sample(xs: List[Any], k: int) -> List[Any]:
    if len(xs) <= k: return list(xs)
    if k <= 0: return []
    step = len(xs) / k
    return [xs[int(i * step)] for i in range(k)]


def patterns_for_shape(shape: Sequence[int], tier: str = "quick") -> List[Dict[str, Any]]:
    """A small, diverse, deterministic set of patterns whose virtual size() is exactly `shape`:
       (1) the dense pattern; (2) a greedy cover of the atomic `features` (diagonal / shared axis
       across vaxes and inside one vaxis, an axis at two depths, SumAxis with before / after /
       both, product of physical axes, sum inside product, product inside sum, sum inside sum,
       unitAxis, one-hot 1+unit+k, empty pool, permuted pool order ...); (3) one representative
       per `signature` class, evenly sampled, up to the cap (quick 24, thorough 150 with up to
       three members per class); (4) a few patterns with a zero-size physical axis (quick 2,
       thorough 8); (5) some of the above again with "expanded" (stride 0) and "transposed"
       physical storage."""
    shape = tuple(shape)
    key = (shape, tier)
    if key in _PFS_CACHE:
        return [json.loads(json.dumps(p)) for p in _PFS_CACHE[key]]
    th = tier == "thorough"
    cap = _CAP["thorough" if th else "quick"]
    allp = list(_patterns_of(shape, 3, 2, th))
    nz = [p for p in allp if 0 not in p["pool"]]
    zz = [p for p in allp if 0 in p["pool"]]
    dense = _dense_pattern(shape)
    chosen: List[Dict[str, Any]] = []
    seen = set()
    def take(p):
        c = canonical(p)
        if c not in seen:
            seen.add(c); chosen.append(p)
    if 0 not in shape: take(dense)
    # (2) greedy feature cover
    feats = [features(p) for p in nz]
    covered: set = set(features(dense)) if 0 not in shape else set()
    while len(chosen) < cap:
        best, gain = None, 0
        for i, f in enumerate(feats):
            g = len(f - covered)
            if g > gain: best, gain = i, g
        if best is None: break
        take(nz[best]); covered |= feats[best]
    # (3) one (thorough: three) per signature class, evenly sampled
    groups: Dict[str, List[Dict[str, Any]]] = {}
    for p in nz: groups.setdefault(signature(p), []).append(p)
    reps = []
    for j in range(3 if th else 1):
        for s in sorted(groups):
            g = groups[s]
            idx = j * max(1, len(g) // 3)
            if idx < len(g) and (j == 0 or idx > 0) and canonical(g[idx]) not in seen: reps.append(g[idx])
    for p in _sample(reps, max(0, cap - len(chosen))): take(p)
    # SumAxis(0, X, 0) (a no-op the library treats specially when unifying with unitAxis)
    if 0 not in shape and any(n >= 2 for n in shape):
        q = json.loads(json.dumps(dense))
        i = next(i for i, n in enumerate(shape) if n >= 2)
        q["vaxes"][i] = ["+", 0, q["vaxes"][i], 0]
        take(q)
    if 0 not in shape and 1 in shape:
        q = json.loads(json.dumps(dense))
        q["vaxes"][list(shape).index(1)] = ["+", 0, UNIT, 0]
        take(q)
    # (4) zero-size physical axes
    zgroups: Dict[str, List[Dict[str, Any]]] = {}
    for p in zz: zgroups.setdefault(signature(p), []).append(p)
    zreps = [zgroups[s][0] for s in sorted(zgroups)]
    zcap = _ZCAP["thorough" if th else "quick"] * (3 if 0 in shape else 1)
    for p in _sample(zreps, zcap): take(p)
    # (5) storage variants
    extra = []
    c1 = c2 = 0
    for p in chosen:
        if len(p["pool"]) >= 1 and 0 not in p["pool"]:
            if c1 % 4 == 0:
                q = dict(p); q["storage"] = "expanded"; extra.append(q)
            c1 += 1
        if len(p["pool"]) >= 2 and 0 not in p["pool"]:
            if c2 % 3 == 0:
                q = dict(p); q["storage"] = "transposed"; extra.append(q)
            c2 += 1
    out = chosen + extra
    _PFS_CACHE[key] = out
    return [json.loads(json.dumps(p)) for p in out]


# ----------------------------------------------------------------------------- index types
# The library is *typed*: index types  tau ::= n | tau x ... x tau | tau + ... + tau.  An axis e is a
# pattern of type tau if: e is a PhysicalAxis (or unitAxis) of numel |tau| (dense, any tau); or tau is
# a product and e the product of patterns of consecutive groups of its factors; or tau is a sum and
# e = SumAxis(|tau_1..tau_{i-1}|, e_i, |tau_{i+1}..tau_k|) with e_i a pattern of tau_i.  Operations
# that combine two tensors (binary ops, where, equal, allclose, project, einsum on a shared index)
# are specified only when the co-indexed axes have a common type ("well-typed"); on other pairs
# the library warns "indicates index type mismatch".  `compatible` decides the existence of a
# common type without using the library.
def _is_dense_axis(a) -> bool:
    return a[0] in ("P", "P?") or (a[0] == "*" and not a[1])


def _numel_x(a, pool) -> int:
    return a[1] if a[0] == "P?" else ax_numel(a, pool)


def ax_compatible(e, pe, f, pf) -> bool:
    """do the axis recipes e (over pool pe) and f (over pool pf) have a common index type?"""
    ne, nf = _numel_x(e, pe), _numel_x(f, pf)
    if ne != nf: return False
    if _is_dense_axis(e) or _is_dense_axis(f): return True
    if e[0] == "*" and f[0] == "*":
        if ne == 0: return True
        es, fs = list(e[1]), list(f[1])
        while es and fs:
            e9, f9 = es.pop(), fs.pop()
            m, n = _numel_x(e9, pe), _numel_x(f9, pf)
            if m == n:
                if not ax_compatible(e9, pe, f9, pf): return False
            elif m == 0 or n == 0:
                return False
            elif m < n:
                if n % m or f9[0] not in ("P", "P?"): return False
                fs.append(["P?", n // m])
            else:
                if m % n or e9[0] not in ("P", "P?"): return False
                es.append(["P?", m // n])
        return not es and not fs
    if e[0] == "+" and f[0] == "+":
        if e[1] == f[1] and e[3] == f[3]:
            return ax_compatible(e[2], pe, f[2], pf)
        me, mf = _numel_x(e[2], pe), _numel_x(f[2], pf)
        return e[1] + me <= f[1] or f[1] + mf <= e[1]
    return False


def compatible(r1, r2, broadcast: bool = False) -> bool:
    """True iff the two recipes/patterns have the same virtual shape and a common index type per
       dimension.  broadcast=True: align from the right; a missing dimension or a unitAxis is
       compatible with anything (torch broadcasting as implemented by the library)."""
    a1, a2 = r1["vaxes"], r2["vaxes"]
    if not broadcast:
        if len(a1) != len(a2): return False
        return all(ax_compatible(e, r1["pool"], f, r2["pool"]) for e, f in zip(a1, a2))
    for e, f in zip(reversed(a1), reversed(a2)):
        ne, nf = ax_numel(e, r1["pool"]), ax_numel(f, r2["pool"])
        if ne == nf:
            if not ax_compatible(e, r1["pool"], f, r2["pool"]): return False
        elif ne == 1:
            if e != UNIT: return False      # a size-1 axis that is not unitAxis is not broadcast by the library
        elif nf == 1:
            if f != UNIT: return False
        else:
            return False
    return True


# ----------------------------------------------------------------------------- data
_FINITE = [k / 8.0 for k in range(-40, 41) if k not in (0, 8, -8, 20)]


def fill_data(pattern, rng: random.Random, special: bool = True, dtype: str = "float64",
              default: Any = 0, storage: Optional[str] = None) -> Dict[str, Any]:
    """Complete a pattern to a tensor recipe.  Float data: with probability 1/2 (if `special`)
       a value from {0, 1, -1, 2.5, inf, -inf, nan}, else a seeded finite multiple of 1/8
       (exact in float32).  bool data: random bools; int64 data: ints in [-3, 3]."""
    r = {"pool": list(pattern["pool"]), "vaxes": json.loads(json.dumps(pattern["vaxes"])),
         "storage": storage or pattern.get("storage", "contig"),
         "dtype": pattern.get("dtype", dtype),
         "default": pattern.get("default", enc(default))}
    if r["storage"] == "expanded" and not r["pool"]:
        r["storage"] = "contig"
    n = data_len(r)
    data = []
    for _ in range(n):
        if r["dtype"] == "bool":
            data.append(rng.random() < 0.5)
        elif r["dtype"] == "int64":
            data.append(rng.randint(-3, 3))
        elif special and rng.random() < 0.5:
            data.append(enc(rng.choice(SPECIALS)))
        else:
            data.append(rng.choice(_FINITE))
    r["data"] = data
    if r["dtype"] == "bool":
        r["default"] = bool(dec(r["default"]))
    elif r["dtype"] == "int64":
        r["default"] = int(dec(r["default"]))
    return r


def with_default(recipe, default) -> Dict[str, Any]:
    r = dict(recipe); r["default"] = enc(default); return r


# ----------------------------------------------------------------------------- self-test
def _selftest(tier: str = "quick", verbose: bool = True) -> int:
    import os, warnings, time
    t0 = time.time()
    rng = random.Random(12345)
    shapes = all_shapes(6, 3) + [(0,), (0, 2), (2, 0), (1, 0)]
    total_full = 0
    for s in shapes:
        total_full += sum(1 for _ in _patterns_of(s, 3, 2, False))
    n = bad = 0
    sizes = {}
    with warnings.catch_warnings():
        warnings.simplefilter("ignore")
        for s in shapes:
            pats = patterns_for_shape(s, tier)
            sizes[s] = len(pats)
            assert all(shape_of(p) == tuple(s) for p in pats), s
            assert len({canonical(p) for p in pats}) == len(pats), s
            for p in pats:
                for dt, dflt in (("float64", rng.choice(DEFAULTS)), ("float32", 2.5),
                                 ("bool", rng.random() < 0.5), ("int64", 7)):
                    r = fill_data(p, rng, dtype=dt, default=dflt)
                    r = json.loads(canonical(r))              # recipes survive JSON
                    t = build_pt(r)
                    got, want = t.to_dense(), dense_oracle(r)
                    n += 1
                    if not same(got, want):
                        bad += 1
                        if verbose: print("MISMATCH", canonical(r), got.tolist(), want.tolist())
                    if tuple(t.size()) != shape_of(r): bad += 1
    if verbose:
        print(f"shapes: {len(shapes)}  full enumeration depth<=2: {total_full} patterns")
        print("quick/thorough set sizes:", {str(k): v for k, v in sizes.items()})
        print(f"build_pt(r).to_dense() == dense_oracle(r): {n} recipes, {bad} mismatches, {time.time()-t0:.1f}s")
    return bad


if __name__ == "__main__":
    import sys
    sys.exit(1 if _selftest(sys.argv[1] if len(sys.argv) > 1 else "quick") else 0)
# T-READY
