# Contracts for fggs/viterbi.py (C04, C12): what viterbi.sum_product_edges hands to log_viterbi_einsum_forward.
# reconstruct() decodes the back-pointers "in order of appearance when iterating over the edges of rule.rhs"; the loop
# invariant states that the index lists are appended in the order of the iteration, one tensor per index list.  (That the
# iteration IS rule.rhs.edges() in dict order cannot be expressed: the model has no canonical dict order; a re-ordering of the
# edges is caught by the static obligation "no ordering of ids / labels / nodes" of C12.)

@contract("fggs.viterbi.sum_product_edges")
class viterbi_sum_product_edges:
    sig = {"fgg": "opaque", "rule": "HRGRule", "inputses": "opaque", "semiring": "opaque"}
    properties = ["C04", "C12"]
    locals = {"connected": "set[Node]", "indexing": "list[seq[Node]]", "tensors": "opaque"}
    opaque_calls = ["log_viterbi_einsum_forward", "view", "expand", "shape", "clone", "nan_to_num_", "size"]
    requires = lambda rule: wf_graph(rule.rhs)
    loops = {
        0: lambda rule, indexing, connected, _i0, _it0: (
            same_graph_state(rule.rhs) and count("log_viterbi_einsum_forward") == 0
            and len(indexing) == _i0 and count("append") == _i0
            and forall(lambda j: implies(0 <= j and j < _i0, indexing[j] == _it0[j].nodes), "int")
            and forall(lambda j, m: implies(0 <= j and j < _i0 and 0 <= m and m < len(_it0[j].nodes), _it0[j].nodes[m] in connected), "int,int")),
        1: lambda rule, indexing, connected, _i0, _it0, edge: (
            same_graph_state(rule.rhs) and count("log_viterbi_einsum_forward") == 0
            and len(indexing) == _i0 + 1 and count("append") == _i0 and indexing[_i0] == edge.nodes and edge == _it0[_i0]
            and forall(lambda j: implies(0 <= j and j < _i0, indexing[j] == _it0[j].nodes), "int")
            and forall(lambda j, m: implies(0 <= j and j <= _i0 and 0 <= m and m < len(_it0[j].nodes), _it0[j].nodes[m] in connected), "int,int")),
    }
    checks = {"out, ptr = log_viterbi_einsum_forward(tensors, indexing, outputs, semiring)": lambda rule, indexing, connected, outputs: (
        # one tensor per index list; every edge of the rule contributes its attachment list and nothing else does; every
        # attachment node counts as connected; the outputs are connected external nodes
        count("append") == len(indexing)
        and forall(lambda e: implies(e in vals(rule.rhs._edges), exists(lambda j: 0 <= j and j < len(indexing) and indexing[j] == e.nodes, "int")), "Edge")
        and forall(lambda j: implies(0 <= j and j < len(indexing), exists(lambda e: e in vals(rule.rhs._edges) and indexing[j] == e.nodes, "Edge")), "int")
        and forall(lambda e, m: implies(e in vals(rule.rhs._edges) and 0 <= m and m < len(e.nodes), e.nodes[m] in connected), "Edge,int")
        and forall(lambda a: implies(0 <= a and a < len(outputs), outputs[a] in rule.rhs._ext and outputs[a] in connected), "int"))}
    ensures = {"einsum_once_or_none": lambda result: (
        count("log_viterbi_einsum_forward") <= 1 and implies(count("log_viterbi_einsum_forward") == 0, result is None)),
        "pure": lambda rule: same_graph_state(rule.rhs)}
