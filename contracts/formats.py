# Contracts for fggs/formats.py  (C14: out-of-range -- including negative -- node numbers are rejected)
# The JSON document and the objects built from it are opaque; the obligations concern the node numbers.

@contract("fggs.formats.json_to_hrg")
class json_to_hrg:
    sig = {"j": "opaque"}
    properties = ["C14"]
    opaque_calls = ["NodeLabel", "EdgeLabel", "HRG", "Graph", "Node", "Edge", "HRGRule"]
    opaque_elems = {"'attachments'": "int", "'externals'": "int"}
    locals = {"labels": "opaque", "nodes": "list[PyVal]", "att": "list[PyVal]", "ext": "list[PyVal]"}
    loops = {0: lambda: True, 1: lambda: True, 2: lambda: True, 3: lambda: True, 4: lambda: True,
             5: lambda: True, 6: lambda: True, 7: lambda: True}
    # a node number that is accepted (the append is reached without an exception) is in range
    checks = {
        "att.append(nodes[vi])": lambda vi, nodes: 0 <= vi and vi < len(nodes),
        "ext.append(nodes[vi])": lambda vi, nodes: 0 <= vi and vi < len(nodes),
    }
    # ... and an out-of-range number can only surface as ValueError, never as IndexError
    may_raise = ["ValueError"]
