# Contracts for the undirected-graph helpers of fggs/factorize.py  (C10)
# A graph is a dict vertex -> set of neighbours.

def sym_irrefl(g):
    # neighbours are vertices, adjacency is symmetric, no self loops
    return forall(lambda u, v: implies(u in g and v in g[u], v in g and u in g[v] and u != v), "PyVal,PyVal")


@contract("fggs.factorize.add_node")
class add_node:
    sig = {"graph": "dict[PyVal,set[PyVal]]", "v": "PyVal"}
    properties = ["C10"]
    requires = lambda graph, v: sym_irrefl(graph)
    ensures = {
        "view": lambda graph, v: (keys(graph) == with_(old(keys(graph)), v)
                                  and forall(lambda w: implies(w in old(graph), graph[w] == old(graph)[w]), "PyVal")
                                  and implies(v not in old(graph), forall(lambda x: x not in graph[v], "PyVal"))),
        "inv": lambda graph, v: sym_irrefl(graph),
    }


@contract("fggs.factorize.add_edge")
class add_edge:
    sig = {"graph": "dict[PyVal,set[PyVal]]", "u": "PyVal", "v": "PyVal"}
    properties = ["C10"]
    requires = lambda graph, u, v: sym_irrefl(graph) and u != v
    ensures = {
        "view": lambda graph, u, v: (keys(graph) == old(keys(graph))
                                     and graph[u] == with_(old(graph)[u], v) and graph[v] == with_(old(graph)[v], u)
                                     and forall(lambda w: implies(w in graph and w != u and w != v,
                                                                  graph[w] == old(graph)[w]), "PyVal")),
        "inv": lambda graph, u, v: sym_irrefl(graph),
    }
    raises = {"KeyError": lambda graph, u, v: u not in graph or v not in graph}


@contract("fggs.factorize.remove_node")
class remove_node:
    sig = {"graph": "dict[PyVal,set[PyVal]]", "v": "PyVal"}
    properties = ["C10"]
    requires = lambda graph, v: sym_irrefl(graph)
    loops = {0: lambda graph, v, _i, _it: (
        keys(graph) == old(keys(graph)) and graph[v] == old(graph)[v]
        and forall(lambda w, x: implies(w in graph and w != v and x != v,
                                        (x in graph[w]) == (x in old(graph)[w])), "PyVal,PyVal")
        and forall(lambda w: implies(w in graph and w != v and v in graph[w],
                                     v in old(graph)[w]
                                     and not exists(lambda j: 0 <= j and j < _i and _it[j] == w, "int")), "PyVal"))}
    ensures = {
        "view": lambda graph, v: (keys(graph) == without(old(keys(graph)), v)
                                  and forall(lambda w: implies(w in graph,
                                                               graph[w] == without(old(graph)[w], v)), "PyVal")),
        "inv": lambda graph, v: sym_irrefl(graph),
    }
    raises = {"KeyError": lambda graph, v: v not in graph}


@contract("fggs.factorize.copy_graph")
class copy_graph:
    sig = {"graph": "dict[PyVal,set[PyVal]]"}
    properties = ["C10", "C18"]
    ensures = {
        "equal": lambda graph, result: (keys(result) == keys(graph)
                                        and forall(lambda w: implies(w in graph, result[w] == graph[w]), "PyVal")),
        "fresh": lambda graph, result: is_fresh(result),
        "source_untouched": lambda graph, result: graph == old(graph),
    }


def processed(it, i, w):
    return exists(lambda j: 0 <= j and j < i and it[j] == w, "int")


@contract("fggs.factorize.make_clique")
class make_clique:
    sig = {"graph": "dict[PyVal,set[PyVal]]", "nodes": "set[PyVal]"}
    properties = ["C10"]
    requires = lambda graph, nodes: sym_irrefl(graph) and forall(lambda w: implies(w in nodes, w in graph), "PyVal")
    loops = {
        0: lambda graph, nodes, _i0, _it0: (
            keys(graph) == old(keys(graph)) and sym_irrefl(graph)
            and forall(lambda w, x: implies(w in graph, (x in graph[w]) == (
                x in old(graph)[w]
                or (w in nodes and x in nodes and w != x
                    and (processed(_it0, _i0, w) or processed(_it0, _i0, x))))), "PyVal,PyVal")),
        1: lambda graph, nodes, v1, _i0, _it0, _i1, _it1: (
            keys(graph) == old(keys(graph)) and sym_irrefl(graph)
            and forall(lambda w, x: implies(w in graph, (x in graph[w]) == (
                x in old(graph)[w]
                or (w in nodes and x in nodes and w != x
                    and (processed(_it0, _i0, w) or processed(_it0, _i0, x)
                         or (w == v1 and processed(_it1, _i1, x))
                         or (x == v1 and processed(_it1, _i1, w)))))), "PyVal,PyVal")),
    }
    ensures = {
        # exactly the pairs of distinct members of `nodes` are added; nothing else changes
        "view": lambda graph, nodes: (
            keys(graph) == old(keys(graph))
            and forall(lambda w, x: implies(w in graph, (x in graph[w]) == (
                x in old(graph)[w] or (w in nodes and x in nodes and w != x))), "PyVal,PyVal")),
        "inv": lambda graph, nodes: sym_irrefl(graph),
        "nodes_untouched": lambda graph, nodes: nodes == old(nodes),
    }


@contract("fggs.factorize.eliminate_node")
class eliminate_node:
    sig = {"graph": "dict[PyVal,set[PyVal]]", "v": "PyVal"}
    properties = ["C10"]
    modular = True
    modifies = ["graph"]
    requires = lambda graph, v: sym_irrefl(graph)
    ensures = {
        # g' = g - v with the neighbourhood of v made a clique
        "view": lambda graph, v: (
            keys(graph) == without(old(keys(graph)), v)
            and forall(lambda w, x: implies(w in graph, (x in graph[w]) == (
                x != v and (x in old(graph)[w]
                            or (w in old(graph)[v] and x in old(graph)[v] and w != x)))), "PyVal,PyVal")),
        "inv": lambda graph, v: sym_irrefl(graph),
    }
    raises = {"KeyError": lambda graph, v: v not in graph}
    on_raise = {"KeyError": lambda graph, v: graph == old(graph)}


@contract("fggs.factorize.is_clique")
class is_clique:
    sig = {"graph": "dict[PyVal,set[PyVal]]", "vs": "set[PyVal]"}
    properties = ["C10"]
    requires = lambda graph, vs: forall(lambda w: implies(w in vs, w in graph), "PyVal")
    loops = {
        0: lambda graph, vs, _i0, _it0: (graph == old(graph) and forall(
            lambda a, b: implies(processed(_it0, _i0, a) and b in vs and a != b, b in graph[a]), "PyVal,PyVal")),
        1: lambda graph, vs, v1, _i0, _it0, _i1, _it1: (graph == old(graph) and forall(
            lambda a, b: implies(b in vs and a != b
                                 and (processed(_it0, _i0, a) or (a == v1 and processed(_it1, _i1, b))),
                                 b in graph[a]), "PyVal,PyVal")),
    }
    ensures = {"decides": lambda graph, vs, result: (
        result == forall(lambda a, b: implies(a in vs and b in vs and a != b, b in graph[a]), "PyVal,PyVal")
        and graph == old(graph))}


@contract("fggs.factorize.min_fill")
class min_fill:
    sig = {"graph": "dict[PyVal,set[PyVal]]"}
    properties = ["C10", "C18"]
    locals = {"order": "list[PyVal]"}
    requires = lambda graph: sym_irrefl(graph)
    # NB inside the function `graph` is re-bound to a private copy; param("graph") is the caller's dict
    loops = {0: lambda graph, order, dmax: (
        sym_irrefl(graph) and dmax >= 0 and param("graph") == old(param("graph"))
        and forall(lambda w: (w in old(param("graph"))) == (w in graph or w in order), "PyVal")
        and forall(lambda w: not (w in graph and w in order), "PyVal")
        and forall(lambda i, j: implies(0 <= i and i < j and j < len(order), order[i] != order[j]), "int,int"))}
    ensures = {
        "order_is_a_permutation_of_the_vertices": lambda graph, result: (
            forall(lambda w: (w in old(graph)) == (w in result[1]), "PyVal")
            and forall(lambda i, j: implies(0 <= i and i < j and j < len(result[1]),
                                            result[1][i] != result[1][j]), "int,int")),
        "width_nonnegative": lambda result: result[0] >= 0,
        "argument_untouched": lambda graph: graph == old(graph),
    }


# ---- dispatch: the `method` argument is honoured (C05, C10) -----------------------------------------
@contract("fggs.factorize.tree_decomposition")
class tree_decomposition:
    sig = {"graph": "opaque", "method": "str"}
    properties = ["C10", "C05"]
    opaque_calls = ["quickbb", "min_fill", "acb", "tree_decomposition_from_order"]
    ensures = {"dispatch": lambda method: (
        count("quickbb") == (1 if method == "quickbb" else 0)
        and count("min_fill") == (1 if method == "min_fill" else 0)
        and count("acb") == (1 if method == "acb" else 0)
        and count("tree_decomposition_from_order") == (0 if method == "acb" else 1))}
    raises = {"ValueError": lambda method: method != "quickbb" and method != "min_fill" and method != "acb"}


@contract("fggs.factorize.factorize_fgg")
class factorize_fgg:
    sig = {"g": "opaque", "method": "str"}
    properties = ["C05"]
    opaque_calls = ["factorize_hrg", "from_hrg"]
    ensures = {"method_honoured": lambda method: count("factorize_hrg") == 1 and always_passed("factorize_hrg", "method")}


@contract("fggs.factorize.factorize_hrg")
class factorize_hrg:
    sig = {"g": "opaque", "method": "str"}
    properties = ["C05"]
    opaque_calls = ["factorize_rule", "HRG", "set"]
    loops = {0: lambda: always_passed("factorize_rule", "method") and count("factorize_rule") == _i0,
             1: lambda: always_passed("factorize_rule", "method")}
    ensures = {"method_honoured": lambda method: always_passed("factorize_rule", "method")}


# ---- tree decomposition from an elimination order (C10): every vertex and every edge is covered by some bag -----------
# (the nested recursive `build` is verified against its own contract; that the bags containing a vertex form a subtree,
#  and that the search loop for a bag containing the clique always succeeds -- the Helly property -- are NOT proved:
#  AssertionError is declared possible, the bounded stand-in covers validity exhaustively up to its vertex bound)
def order_enumerates(graph, order):
    return (forall(lambda w: (w in graph) == (w in order), "PyVal")
            and forall(lambda i, j: implies(0 <= i and i < j and j < len(order), order[i] != order[j]), "int,int"))

def covers(tree, vertices, adj):
    # every vertex of `vertices` and every edge of `adj` lies inside some bag of the tree
    return (forall(lambda x: implies(x in vertices, exists(lambda b: b in tree and x in b, "set[PyVal]")), "PyVal")
            and forall(lambda x, y: implies(x in adj and y in adj[x],
                                            exists(lambda b: b in tree and x in b and y in b, "set[PyVal]")), "PyVal,PyVal"))

def tree_frame(tree, vertices):
    # bags that were there stay; new bags consist of vertices
    return (forall(lambda b: implies(b in old(tree), b in tree), "set[PyVal]")
            and forall(lambda b, x: implies(b in tree and b not in old(tree) and x in b, x in vertices), "set[PyVal],PyVal"))


@contract("fggs.factorize.tree_decomposition_from_order.build")
class td_build:
    sig = {"order": "seq[PyVal]", "graph": "dict[PyVal,set[PyVal]]", "tree": "dict[set[PyVal],set[set[PyVal]]]"}
    properties = ["C10"]
    captures = ["graph", "tree"]
    modular = True
    modifies = ["graph", "tree"]
    locals = {"clique": "set[PyVal]"}
    may_raise = ["AssertionError"]
    shards = 6
    requires = lambda order, graph, tree: sym_irrefl(graph) and len(order) >= 1 and order_enumerates(graph, order)
    loops = {0: lambda graph, tree: True}
    ensures = {
        "covers": lambda order, graph, tree: covers(tree, old(keys(graph)), old(graph)),
        "frame": lambda order, graph, tree: tree_frame(tree, old(keys(graph))),
        "nonempty": lambda tree: exists(lambda b: b in tree, "set[PyVal]"),
    }


@contract("fggs.factorize.tree_decomposition_from_order")
class tree_decomposition_from_order:
    sig = {"graph": "dict[PyVal,set[PyVal]]", "order": "seq[PyVal]"}
    properties = ["C10", "C05"]
    locals = {"tree": "dict[set[PyVal],set[set[PyVal]]]"}
    may_raise = ["AssertionError"]
    requires = lambda graph, order: sym_irrefl(graph) and order_enumerates(graph, order)
    ensures = {
        "covers": lambda graph, order, result: covers(result, old(keys(graph)), old(graph)),
        "bags_are_vertex_sets": lambda graph, order, result: forall(
            lambda b, x: implies(b in result and x in b, x in old(keys(graph))), "set[PyVal],PyVal"),
        "nonempty": lambda result: exists(lambda b: b in result, "set[PyVal]"),
    }


# ---- more helpers of the lower / upper bound and of quickbb's reductions (C10) ---------------------------------------
@contract("fggs.factorize.contract_edge")
class contract_edge:
    sig = {"graph": "dict[PyVal,set[PyVal]]", "u": "PyVal", "v": "PyVal"}
    properties = ["C10"]
    requires = lambda graph, u, v: sym_irrefl(graph) and u in graph and v in graph and u != v
    loops = {0: lambda graph, u, v, _i0, _it0: (
        sym_irrefl(graph) and keys(graph) == old(keys(graph)) and graph[v] == old(graph)[v]
        and forall(lambda w, x: implies(w in graph and w != u and x != u, (x in graph[w]) == (x in old(graph)[w])), "PyVal,PyVal")
        and forall(lambda x: implies(x in graph[u], x in old(graph)[u] or (x in old(graph)[v] and x != u)), "PyVal")
        and forall(lambda x: implies(x in old(graph)[u], x in graph[u]), "PyVal")
        and forall(lambda j: implies(0 <= j and j < _i0 and _it0[j] != u, _it0[j] in graph[u]), "int"))}
    ensures = {
        # v is merged into u: v disappears, u inherits v's other neighbours, nothing else changes
        "view": lambda graph, u, v: (
            keys(graph) == without(old(keys(graph)), v)
            and forall(lambda x: (x in graph[u]) == (x != v and x != u and (x in old(graph)[u] or x in old(graph)[v])), "PyVal")
            and forall(lambda w, x: implies(w in graph and w != u, (x in graph[w]) == (
                x != v and (x in old(graph)[w] or (x == u and w in old(graph)[v])))), "PyVal,PyVal")),
        "inv": lambda graph, u, v: sym_irrefl(graph),
    }


@contract("fggs.factorize.simplicial")
class simplicial:
    sig = {"graph": "dict[PyVal,set[PyVal]]", "v": "PyVal"}
    properties = ["C10"]
    requires = lambda graph, v: sym_irrefl(graph) and v in graph
    ensures = {"decides": lambda graph, v, result: (
        result == forall(lambda a, b: implies(a in graph[v] and b in graph[v] and a != b, b in graph[a]), "PyVal,PyVal")
        and graph == old(graph))}


def clique_without(graph, v, u):
    # the neighbours of v other than u are pairwise adjacent
    return forall(lambda a, b: implies(a in graph[v] and b in graph[v] and a != u and b != u and a != b, b in graph[a]), "PyVal,PyVal")


@contract("fggs.factorize.almost_simplicial")
class almost_simplicial:
    sig = {"graph": "dict[PyVal,set[PyVal]]", "v": "PyVal"}
    properties = ["C10"]
    requires = lambda graph, v: sym_irrefl(graph) and v in graph
    loops = {0: lambda graph, v, _i0, _it0: (
        graph == old(graph) and forall(lambda j: implies(0 <= j and j < _i0, not clique_without(graph, v, _it0[j])), "int"))}
    ensures = {"decides": lambda graph, v, result: (
        result == exists(lambda u: u in graph[v] and clique_without(graph, v, u), "PyVal") and graph == old(graph))}


# ---- connected_components (used by acb): a partition of the vertices outside s into blocks closed under adjacency ------
def cc_blocks_ok(g, s, comps):
    return (forall(lambda c, x: implies(0 <= c and c < len(comps) and x in comps[c], x in g and x not in s), "int,PyVal")
            and forall(lambda c, d, x: implies(0 <= c and c < d and d < len(comps), not (x in comps[c] and x in comps[d])), "int,int,PyVal")
            and forall(lambda c: implies(0 <= c and c < len(comps), exists(lambda x: x in comps[c], "PyVal")), "int")
            # no edge leaves a block except into s
            and forall(lambda c, x, y: implies(0 <= c and c < len(comps) and x in comps[c] and y in g[x] and y not in s,
                                               y in comps[c]), "int,PyVal,PyVal"))


@contract("fggs.factorize.connected_components")
class connected_components:
    sig = {"g": "dict[PyVal,set[PyVal]]", "s": "set[PyVal]"}
    properties = ["C10"]
    locals = {"comps": "list[set[PyVal]]", "comp": "set[PyVal]"}
    requires = lambda g, s: sym_irrefl(g)
    loops = {
        0: lambda g, s, nodes, comps: (
            g == old(g) and s == old(s) and cc_blocks_ok(g, s, comps)
            and forall(lambda x: implies(x in nodes, x in g and x not in s), "PyVal")
            and forall(lambda c, x: implies(0 <= c and c < len(comps) and x in comps[c], x not in nodes), "int,PyVal")
            and forall(lambda x: implies(x in g and x not in s, x in nodes
                                         or exists(lambda c: 0 <= c and c < len(comps) and x in comps[c], "int")), "PyVal")),
        1: lambda g, s, nodes, comps, comp, agenda: (
            g == old(g) and s == old(s) and cc_blocks_ok(g, s, comps)
            and forall(lambda x: implies(x in nodes, x in g and x not in s), "PyVal")
            and forall(lambda c, x: implies(0 <= c and c < len(comps) and x in comps[c], x not in nodes), "int,PyVal")
            # the block under construction and the agenda: vertices outside s that are in no finished block
            and forall(lambda x: implies(x in comp or x in agenda, x in g and x not in s
                                         and forall(lambda c: implies(0 <= c and c < len(comps), x not in comps[c]), "int")), "PyVal")
            and forall(lambda x: not (x in comp and x in agenda), "PyVal")
            and exists(lambda x: x in comp or x in agenda, "PyVal")
            and forall(lambda x, y: implies(x in comp and y in g[x] and y not in s, y in comp or y in agenda), "PyVal,PyVal")
            and forall(lambda x: implies(x in g and x not in s, x in nodes or x in comp or x in agenda
                                         or exists(lambda c: 0 <= c and c < len(comps) and x in comps[c], "int")), "PyVal")),
    }
    ensures = {
        "partition_closed_under_adjacency": lambda g, s, result: cc_blocks_ok(g, s, result),
        "covers": lambda g, s, result: forall(lambda x: implies(x in g and x not in s,
                                                                exists(lambda c: 0 <= c and c < len(result) and x in result[c], "int")), "PyVal"),
        "pure": lambda g, s: g == old(g) and s == old(s),
    }
