# Contracts for fggs/utils.py  (C05, C17, C19)

@contract("fggs.utils.unique_label_name")
class unique_label_name:
    sig = {"name": "str", "labs": "set[EdgeLabel]"}
    properties = ["C05", "C17"]
    returns = "str"
    modular = True
    loops = {0: lambda name, labs, new_name, i: i >= 1 and implies(
        forall(lambda l: implies(l in labs, l.name != name), "EdgeLabel"), new_name == name)}
    ensures = {
        "fresh": lambda name, labs, result: forall(lambda l: implies(l in labs, l.name != result), "EdgeLabel"),
        "kept_if_free": lambda name, labs, result: implies(
            forall(lambda l: implies(l in labs, l.name != name), "EdgeLabel"), result == name),
        "pure": lambda name, labs, result: labs == old(labs),
    }


# ---- read-only view of an HRG (label tables + flat rule sequence) ----------------------------------
@contract("fggs.fggs.HRG.all_rules")
class HRG_all_rules:
    # ASSUMED (not verified): HRG._rules is a dict of lists of mutable rules, outside pyvc's value model.
    # The bounded checkers of C16 / C19 exercise all_rules(); here it is the identity on the view.
    sig = {"self": "HRGView"}
    assumed = True
    modular = True
    returns = "seq[RuleV]"
    ensures = {"view": lambda self, result: result == self._rule_seq}


def rule_lhs_registered(hrg):
    # wf_hrg clause (established by HRG.add_rule): every rule's lhs is a nonterminal of the label table
    return forall(lambda i: implies(0 <= i and i < len(hrg._rule_seq),
                                    hrg._rule_seq[i].lhs.is_nonterminal
                                    and hrg._rule_seq[i].lhs.name in hrg._edge_labels
                                    and hrg._edge_labels[hrg._rule_seq[i].lhs.name] == hrg._rule_seq[i].lhs), "int")

def rhs_labels_registered(hrg):
    return forall(lambda i, j: implies(0 <= i and i < len(hrg._rule_seq) and 0 <= j and j < len(hrg._rule_seq[i].rhs.edges()),
                                       hrg._rule_seq[i].rhs.edges()[j].label.name in hrg._edge_labels
                                       and hrg._edge_labels[hrg._rule_seq[i].rhs.edges()[j].label.name]
                                       == hrg._rule_seq[i].rhs.edges()[j].label), "int,int")

def has_edge_upto(hrg, x, y, i, jmax_of_i):
    # some rule with index < i (or rule i, edge index < jmax_of_i) has lhs x and an rhs edge labelled y
    return exists(lambda a, b: 0 <= a and 0 <= b and b < len(hrg._rule_seq[a].rhs.edges())
                  and (a < i or (a == i and b < jmax_of_i)) and a < len(hrg._rule_seq)
                  and hrg._rule_seq[a].lhs == x and hrg._rule_seq[a].rhs.edges()[b].label == y, "int,int")


@contract("fggs.utils.nonterminal_graph")
class nonterminal_graph:
    sig = {"hrg": "HRGView"}
    properties = ["C19"]
    requires = lambda hrg: label_tables_keyed_by_name(hrg) and rule_lhs_registered(hrg) and rhs_labels_registered(hrg)
    loops = {
        0: lambda hrg, g, _i0: (
            forall(lambda x: (x in g) == (x in vals(hrg._edge_labels) and x.is_nonterminal), "EdgeLabel")
            and forall(lambda x, y: implies(x in g, (y in g[x]) == (y.is_nonterminal and has_edge_upto(hrg, x, y, _i0, 0))),
                       "EdgeLabel,EdgeLabel")),
        1: lambda hrg, g, r, _i0, _i1: (
            forall(lambda x: (x in g) == (x in vals(hrg._edge_labels) and x.is_nonterminal), "EdgeLabel")
            and forall(lambda x, y: implies(x in g, (y in g[x]) == (y.is_nonterminal and has_edge_upto(hrg, x, y, _i0, _i1))),
                       "EdgeLabel,EdgeLabel")),
    }
    ensures = {
        "every_nonterminal_is_a_vertex": lambda hrg, result: forall(
            lambda x: (x in result) == (x in vals(hrg._edge_labels) and x.is_nonterminal), "EdgeLabel"),
        "edge_iff_rhs_occurrence": lambda hrg, result: forall(
            lambda x, y: implies(x in result, (y in result[x]) == (
                y.is_nonterminal and has_edge_upto(hrg, x, y, len(hrg._rule_seq), 0))), "EdgeLabel,EdgeLabel"),
        "closed": lambda hrg, result: forall(
            lambda x, y: implies(x in result and y in result[x], y in result), "EdgeLabel,EdgeLabel"),
        "pure": lambda hrg: hrg._edge_labels == old(hrg._edge_labels) and hrg._rule_seq == old(hrg._rule_seq),
    }


@contract("fggs.fggs.HRG.rules")
class HRG_rules:
    # ASSUMED (see HRG.all_rules): the rules of one left-hand side, as a selection from the flat rule sequence
    sig = {"self": "HRGView", "lhs": "EdgeLabel"}
    assumed = True
    modular = True
    returns = "seq[RuleV]"
    ensures = {"view": lambda self, lhs, result: (
        forall(lambda j: implies(0 <= j and j < len(result), result[j] in self._rule_seq and result[j].lhs == lhs), "int")
        and forall(lambda i: implies(0 <= i and i < len(self._rule_seq) and self._rule_seq[i].lhs == lhs,
                                     self._rule_seq[i] in result), "int"))}
