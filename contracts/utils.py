# Contracts for fggs/utils.py  (C05, C17, C19)

@contract("fggs.utils.unique_label_name")
class unique_label_name:
    sig = {"name": "str", "labs": "set[EdgeLabel]"}
    properties = ["C05", "C17"]
    returns = "str"
    modular = True
    loops = {0: lambda name, labs, new_name, i: i >= 1 and implies(
        forall(lambda l: implies(l in labs, l.name != name), "EdgeLabel"), new_name == name)}
    ensures = {
        "fresh": lambda name, labs, result: forall(lambda l: implies(l in labs, l.name != result), "EdgeLabel"),
        "kept_if_free": lambda name, labs, result: implies(
            forall(lambda l: implies(l in labs, l.name != name), "EdgeLabel"), result == name),
        "pure": lambda name, labs, result: labs == old(labs),
    }
