# Contracts for fggs/utils.py  (C05, C17, C19)

@contract("fggs.utils.unique_label_name")
class unique_label_name:
    sig = {"name": "str", "labs": "set[EdgeLabel]"}
    properties = ["C05", "C17"]
    returns = "str"
    modular = True
    loops = {0: lambda name, labs, new_name, i: i >= 1 and implies(
        forall(lambda l: implies(l in labs, l.name != name), "EdgeLabel"), new_name == name)}
    ensures = {
        "fresh": lambda name, labs, result: forall(lambda l: implies(l in labs, l.name != result), "EdgeLabel"),
        "kept_if_free": lambda name, labs, result: implies(
            forall(lambda l: implies(l in labs, l.name != name), "EdgeLabel"), result == name),
        "pure": lambda name, labs, result: labs == old(labs),
    }


# ---- an HRG with its rule table; the rules are immutable snapshots (RuleV: lhs, rhs edges / nodes / externals) --------
# all_rules and rules are VERIFIED on this view (they were assumed contracts before); what remains assumed is the
# abstraction itself: a rule object in the table is not mutated while a query runs.
def in_table(hrg, r):
    return exists(lambda l, i: l in hrg._rules and 0 <= i and i < len(hrg._rules[l]) and hrg._rules[l][i] == r, "EdgeLabel,int")


@contract("fggs.fggs.HRG.all_rules")
class HRG_all_rules:
    sig = {"self": "HRGTable"}
    properties = ["C19", "C16", "C02"]
    returns = "seq[RuleV]"
    ensures = {
        # exactly the rules of the table (order and multiplicity are not specified)
        "members": lambda self, result: forall(lambda r: (r in result) == in_table(self, r), "RuleV"),
        "pure": lambda self: self._rules == old(self._rules),
    }


@contract("fggs.fggs.HRG.rules")
class HRG_rules:
    sig = {"self": "HRGTable", "lhs": "EdgeLabel"}
    properties = ["C19", "C16", "C02"]
    modular = True
    returns = "seq[RuleV]"
    ensures = {
        "the_rules_of_lhs": lambda self, lhs, result: (
            implies(lhs in self._rules, result == self._rules[lhs]) and implies(lhs not in self._rules, len(result) == 0)),
        "pure": lambda self: self._rules == old(self._rules),
    }


def rule_ok(hrg, r):
    # what HRG.add_rule establishes for a rule of the table: its lhs is a registered nonterminal, its rhs labels are registered
    return (r.lhs.is_nonterminal and r.lhs.name in hrg._edge_labels and hrg._edge_labels[r.lhs.name] == r.lhs
            and forall(lambda j: implies(0 <= j and j < len(r.rhs.edges()),
                                         r.rhs.edges()[j].label.name in hrg._edge_labels
                                         and hrg._edge_labels[r.rhs.edges()[j].label.name] == r.rhs.edges()[j].label), "int"))

def table_ok(hrg):
    return forall(lambda l, i: implies(l in hrg._rules and 0 <= i and i < len(hrg._rules[l]), rule_ok(hrg, hrg._rules[l][i])),
                  "EdgeLabel,int")

def enumerates_table(hrg, it):
    # the traversed sequence consists of rules of the table, and every rule of the table occurs in it
    return (forall(lambda a: implies(0 <= a and a < len(it), in_table(hrg, it[a])), "int")
            and forall(lambda l, i: implies(l in hrg._rules and 0 <= i and i < len(hrg._rules[l]),
                                            exists(lambda a: 0 <= a and a < len(it) and it[a] == hrg._rules[l][i], "int")), "EdgeLabel,int"))

def has_edge_upto(it, x, y, i, jmax_of_i):
    # some rule it[a] with a < i (or a == i and edge index < jmax_of_i) has lhs x and an rhs edge labelled y
    return exists(lambda a, b: 0 <= a and 0 <= b and b < len(it[a].rhs.edges())
                  and (a < i or (a == i and b < jmax_of_i)) and a < len(it)
                  and it[a].lhs == x and it[a].rhs.edges()[b].label == y, "int,int")

def has_edge(hrg, x, y):
    # some rule of the table has lhs x and an rhs edge labelled y
    return exists(lambda l, i, b: l in hrg._rules and 0 <= i and i < len(hrg._rules[l]) and hrg._rules[l][i].lhs == x
                  and 0 <= b and b < len(hrg._rules[l][i].rhs.edges())
                  and hrg._rules[l][i].rhs.edges()[b].label == y, "EdgeLabel,int,int")


@contract("fggs.utils.nonterminal_graph")
class nonterminal_graph:
    sig = {"hrg": "HRGTable"}
    properties = ["C19"]
    requires = lambda hrg: label_tables_keyed_by_name(hrg) and table_ok(hrg)
    loops = {
        0: lambda hrg, g, _i0, _it0: (
            hrg._edge_labels == old(hrg._edge_labels) and hrg._rules == old(hrg._rules)
            and enumerates_table(hrg, _it0)
            and forall(lambda a: implies(0 <= a and a < len(_it0), rule_ok(hrg, _it0[a])), "int")
            and forall(lambda x: (x in g) == (x in vals(hrg._edge_labels) and x.is_nonterminal), "EdgeLabel")
            and forall(lambda x, y: implies(x in g, (y in g[x]) == (y.is_nonterminal and has_edge_upto(_it0, x, y, _i0, 0))),
                       "EdgeLabel,EdgeLabel")),
        1: lambda hrg, g, r, _i0, _it0, _i1, _it1: (
            hrg._edge_labels == old(hrg._edge_labels) and hrg._rules == old(hrg._rules)
            and enumerates_table(hrg, _it0)
            and forall(lambda a: implies(0 <= a and a < len(_it0), rule_ok(hrg, _it0[a])), "int")
            and forall(lambda x: (x in g) == (x in vals(hrg._edge_labels) and x.is_nonterminal), "EdgeLabel")
            and forall(lambda x, y: implies(x in g, (y in g[x]) == (y.is_nonterminal and has_edge_upto(_it0, x, y, _i0, _i1))),
                       "EdgeLabel,EdgeLabel")),
    }
    ensures = {
        "every_nonterminal_is_a_vertex": lambda hrg, result: forall(
            lambda x: (x in result) == (x in vals(hrg._edge_labels) and x.is_nonterminal), "EdgeLabel"),
        "edge_iff_rhs_occurrence": lambda hrg, result: forall(
            lambda x, y: implies(x in result, (y in result[x]) == (y.is_nonterminal and has_edge(hrg, x, y))), "EdgeLabel,EdgeLabel"),
        "closed": lambda hrg, result: forall(
            lambda x, y: implies(x in result and y in result[x], y in result), "EdgeLabel,EdgeLabel"),
        "pure": lambda hrg: hrg._edge_labels == old(hrg._edge_labels) and hrg._rules == old(hrg._rules),
    }


# ---- scc: Tarjan's algorithm (C19; C01 / C02 schedule the solvers by it) ---------------------------------------------
# Proved: the result is a partition of the vertex set into non-empty, pairwise disjoint components (and no KeyError /
# IndexError can occur on a closed adjacency mapping).  That the blocks are exactly the strongly connected components and
# that they come in dependency order needs reachability reasoning: bounded stand-in (props/c19_bounded.py).
def scc_closed(g):
    return forall(lambda x, y: implies(x in g and y in g[x], y in g), "PyVal,PyVal")

def tj_core(g, index, indexof, lowlink, stack, onstack):
    return (index >= 0 and forall(lambda x: (x in indexof) == (x in lowlink), "PyVal")
            and forall(lambda x: implies(x in indexof, x in g and 0 <= indexof[x] and indexof[x] < index
                                         and lowlink[x] <= indexof[x]), "PyVal")
            and forall(lambda i: implies(0 <= i and i < len(stack), stack[i] in onstack and stack[i] in indexof), "int")
            # indices increase along the stack (so its elements are distinct)
            and forall(lambda i, j: implies(0 <= i and i < j and j < len(stack), indexof[stack[i]] < indexof[stack[j]]), "int,int")
            and forall(lambda x: implies(x in onstack, exists(lambda i: 0 <= i and i < len(stack) and stack[i] == x, "int")), "PyVal")
            # no low-link of a stacked vertex, and no index of a stacked vertex, lies below the index of the bottom of the
            # stack (so the bottom vertex is the root of its component: its low-link equals its index)
            and forall(lambda i: implies(0 <= i and i < len(stack), lowlink[stack[i]] >= indexof[stack[0]]), "int")
            and forall(lambda x: implies(x in onstack and len(stack) > 0, indexof[x] >= indexof[stack[0]]), "PyVal"))

def tj_comps(indexof, onstack, comps):
    return (forall(lambda c, x: implies(0 <= c and c < len(comps) and x in comps[c], x in indexof and x not in onstack), "int,PyVal")
            and forall(lambda c, d, x: implies(0 <= c and c < d and d < len(comps), not (x in comps[c] and x in comps[d])), "int,int,PyVal")
            and forall(lambda c: implies(0 <= c and c < len(comps), exists(lambda x: x in comps[c], "PyVal")), "int"))

def tj_inv(g, index, indexof, lowlink, stack, onstack, comps):
    return (tj_core(g, index, indexof, lowlink, stack, onstack) and tj_comps(indexof, onstack, comps)
            # every numbered vertex is on the stack or in a finished component
            and forall(lambda x: implies(x in indexof, x in onstack
                                         or exists(lambda c: 0 <= c and c < len(comps) and x in comps[c], "int")), "PyVal"))

def tj_frame(indexof, lowlink, stack, comps):
    # what a call leaves alone: numbers and low-links of vertices numbered before, the stack below, the finished components
    return (forall(lambda x: implies(x in old(indexof), x in indexof and indexof[x] == old(indexof)[x]
                                     and lowlink[x] == old(lowlink)[x]), "PyVal")
            and len(stack) >= len(old(stack))
            and forall(lambda i: implies(0 <= i and i < len(old(stack)), stack[i] == old(stack)[i]), "int")
            and len(comps) >= len(old(comps))
            and forall(lambda c: implies(0 <= c and c < len(old(comps)), comps[c] == old(comps)[c]), "int"))


@contract("fggs.utils.scc.visit")
class scc_visit:
    sig = {"v": "PyVal", "g": "dict[PyVal,set[PyVal]]", "index": "int", "indexof": "dict[PyVal,int]",
           "lowlink": "dict[PyVal,int]", "stack": "list[PyVal]", "onstack": "set[PyVal]", "comps": "list[set[PyVal]]"}
    properties = ["C19", "C01", "C02"]
    captures = ["g", "index", "indexof", "lowlink", "stack", "onstack", "comps"]
    nonlocals = ["index"]
    modular = True
    modifies = ["indexof", "lowlink", "stack", "onstack", "comps", "index"]
    locals = {"comp": "set[PyVal]"}
    shards = 8
    requires = lambda v, g, index, indexof, lowlink, stack, onstack, comps: (
        scc_closed(g) and tj_inv(g, index, indexof, lowlink, stack, onstack, comps) and v in g and v not in indexof)
    loops = {
        0: lambda v, g, index, indexof, lowlink, stack, onstack, comps: (
            g == old(g) and tj_inv(g, index, indexof, lowlink, stack, onstack, comps)
            and tj_frame(indexof, lowlink, stack, comps)
            and v in indexof and v in onstack and indexof[v] == old(index) and index > old(index)
            and len(stack) > len(old(stack)) and stack[len(old(stack))] == v
            and forall(lambda x: implies(x in indexof and x not in old(indexof), indexof[x] >= old(index)), "PyVal")),
        1: lambda v, g, index, indexof, lowlink, stack, onstack, comps, comp: (
            g == old(g) and tj_core(g, index, indexof, lowlink, stack, onstack) and tj_comps(indexof, onstack, comps)
            and tj_frame(indexof, lowlink, stack, comps)
            and v in indexof and indexof[v] == old(index) and lowlink[v] == indexof[v] and index > old(index)
            and forall(lambda x: implies(x in indexof and x not in old(indexof), indexof[x] >= old(index)), "PyVal")
            and forall(lambda x: implies(x in indexof, x in onstack or x in comp
                                         or exists(lambda c: 0 <= c and c < len(comps) and x in comps[c], "int")), "PyVal")
            and forall(lambda x: implies(x in comp, x in indexof and x not in onstack and indexof[x] >= old(index)
                                         and forall(lambda c: implies(0 <= c and c < len(comps), x not in comps[c]), "int")), "PyVal")
            and implies(v not in comp, len(stack) > len(old(stack)) and stack[len(old(stack))] == v)
            and implies(v in comp, len(stack) == len(old(stack)))),
    }
    # the component just closed contains its root (the witness for "components are non-empty")
    checks = {"comps.append(comp)": lambda v, comps: v in comps[len(comps) - 1]}
    ensures = {
        "invariant": lambda v, g, index, indexof, lowlink, stack, onstack, comps: tj_inv(g, index, indexof, lowlink, stack, onstack, comps),
        "frame": lambda g, indexof, lowlink, stack, comps: g == old(g) and tj_frame(indexof, lowlink, stack, comps),
        "numbered": lambda v, index, indexof: (
            v in indexof and indexof[v] == old(index) and index > old(index)
            and forall(lambda x: implies(x in indexof and x not in old(indexof), indexof[x] >= old(index)), "PyVal")),
        # either v is the root of a component, which has been popped down to where the stack was, or v stays on the stack
        "root_or_stacked": lambda v, indexof, lowlink, stack, onstack: (
            implies(v not in onstack, lowlink[v] == indexof[v] and len(stack) == len(old(stack)))
            and implies(v in onstack, lowlink[v] != indexof[v] and len(stack) > len(old(stack)) and stack[len(old(stack))] == v)),
    }


@contract("fggs.utils.scc")
class scc:
    sig = {"g": "dict[PyVal,set[PyVal]]"}
    properties = ["C19", "C01", "C02"]
    locals = {"indexof": "dict[PyVal,int]", "lowlink": "dict[PyVal,int]", "stack": "list[PyVal]",
              "onstack": "set[PyVal]", "comps": "list[set[PyVal]]"}
    requires = lambda g: scc_closed(g)
    loops = {2: lambda g, index, indexof, lowlink, stack, onstack, comps, _i2, _it2: (
        g == old(g) and tj_inv(g, index, indexof, lowlink, stack, onstack, comps) and len(stack) == 0
        and forall(lambda j: implies(0 <= j and j < _i2, _it2[j] in indexof), "int"))}
    ensures = {
        # a partition of the vertex set: every vertex in some component, components non-empty, pairwise disjoint, made of vertices
        "covers": lambda g, result: forall(lambda x: implies(x in g, exists(lambda c: 0 <= c and c < len(result) and x in result[c], "int")), "PyVal"),
        "disjoint": lambda g, result: forall(lambda c, d, x: implies(0 <= c and c < d and d < len(result),
                                                                     not (x in result[c] and x in result[d])), "int,int,PyVal"),
        "nonempty": lambda g, result: forall(lambda c: implies(0 <= c and c < len(result), exists(lambda x: x in result[c], "PyVal")), "int"),
        "vertices_only": lambda g, result: forall(lambda c, x: implies(0 <= c and c < len(result) and x in result[c], x in g), "int,PyVal"),
        "pure": lambda g: g == old(g),
    }
