# Contracts for fggs/utils.py  (C05, C17, C19)

@contract("fggs.utils.unique_label_name")
class unique_label_name:
    sig = {"name": "str", "labs": "set[EdgeLabel]"}
    properties = ["C05", "C17"]
    returns = "str"
    modular = True
    loops = {0: lambda name, labs, new_name, i: i >= 1 and implies(
        forall(lambda l: implies(l in labs, l.name != name), "EdgeLabel"), new_name == name)}
    ensures = {
        "fresh": lambda name, labs, result: forall(lambda l: implies(l in labs, l.name != result), "EdgeLabel"),
        "kept_if_free": lambda name, labs, result: implies(
            forall(lambda l: implies(l in labs, l.name != name), "EdgeLabel"), result == name),
        "pure": lambda name, labs, result: labs == old(labs),
    }


# ---- read-only view of an HRG (label tables + flat rule sequence) ----------------------------------
@contract("fggs.fggs.HRG.all_rules")
class HRG_all_rules:
    # ASSUMED (not verified): HRG._rules is a dict of lists of mutable rules, outside pyvc's value model.
    # The bounded checkers of C16 / C19 exercise all_rules(); here it is the identity on the view.
    sig = {"self": "HRGView"}
    assumed = True
    modular = True
    returns = "seq[RuleV]"
    ensures = {"view": lambda self, result: result == self._rule_seq}


def rule_lhs_registered(hrg):
    # wf_hrg clause (established by HRG.add_rule): every rule's lhs is a nonterminal of the label table
    return forall(lambda i: implies(0 <= i and i < len(hrg._rule_seq),
                                    hrg._rule_seq[i].lhs.is_nonterminal
                                    and hrg._rule_seq[i].lhs.name in hrg._edge_labels
                                    and hrg._edge_labels[hrg._rule_seq[i].lhs.name] == hrg._rule_seq[i].lhs), "int")

def rhs_labels_registered(hrg):
    return forall(lambda i, j: implies(0 <= i and i < len(hrg._rule_seq) and 0 <= j and j < len(hrg._rule_seq[i].rhs.edges()),
                                       hrg._rule_seq[i].rhs.edges()[j].label.name in hrg._edge_labels
                                       and hrg._edge_labels[hrg._rule_seq[i].rhs.edges()[j].label.name]
                                       == hrg._rule_seq[i].rhs.edges()[j].label), "int,int")

def has_edge_upto(hrg, x, y, i, jmax_of_i):
    # some rule with index < i (or rule i, edge index < jmax_of_i) has lhs x and an rhs edge labelled y
    return exists(lambda a, b: 0 <= a and 0 <= b and b < len(hrg._rule_seq[a].rhs.edges())
                  and (a < i or (a == i and b < jmax_of_i)) and a < len(hrg._rule_seq)
                  and hrg._rule_seq[a].lhs == x and hrg._rule_seq[a].rhs.edges()[b].label == y, "int,int")


@contract("fggs.utils.nonterminal_graph")
class nonterminal_graph:
    sig = {"hrg": "HRGView"}
    properties = ["C19"]
    requires = lambda hrg: label_tables_keyed_by_name(hrg) and rule_lhs_registered(hrg) and rhs_labels_registered(hrg)
    loops = {
        0: lambda hrg, g, _i0: (
            forall(lambda x: (x in g) == (x in vals(hrg._edge_labels) and x.is_nonterminal), "EdgeLabel")
            and forall(lambda x, y: implies(x in g, (y in g[x]) == (y.is_nonterminal and has_edge_upto(hrg, x, y, _i0, 0))),
                       "EdgeLabel,EdgeLabel")),
        1: lambda hrg, g, r, _i0, _i1: (
            forall(lambda x: (x in g) == (x in vals(hrg._edge_labels) and x.is_nonterminal), "EdgeLabel")
            and forall(lambda x, y: implies(x in g, (y in g[x]) == (y.is_nonterminal and has_edge_upto(hrg, x, y, _i0, _i1))),
                       "EdgeLabel,EdgeLabel")),
    }
    ensures = {
        "every_nonterminal_is_a_vertex": lambda hrg, result: forall(
            lambda x: (x in result) == (x in vals(hrg._edge_labels) and x.is_nonterminal), "EdgeLabel"),
        "edge_iff_rhs_occurrence": lambda hrg, result: forall(
            lambda x, y: implies(x in result, (y in result[x]) == (
                y.is_nonterminal and has_edge_upto(hrg, x, y, len(hrg._rule_seq), 0))), "EdgeLabel,EdgeLabel"),
        "closed": lambda hrg, result: forall(
            lambda x, y: implies(x in result and y in result[x], y in result), "EdgeLabel,EdgeLabel"),
        "pure": lambda hrg: hrg._edge_labels == old(hrg._edge_labels) and hrg._rule_seq == old(hrg._rule_seq),
    }


@contract("fggs.fggs.HRG.rules")
class HRG_rules:
    # ASSUMED (see HRG.all_rules): the rules of one left-hand side, as a selection from the flat rule sequence
    sig = {"self": "HRGView", "lhs": "EdgeLabel"}
    assumed = True
    modular = True
    returns = "seq[RuleV]"
    ensures = {"view": lambda self, lhs, result: (
        forall(lambda j: implies(0 <= j and j < len(result), result[j] in self._rule_seq and result[j].lhs == lhs), "int")
        and forall(lambda i: implies(0 <= i and i < len(self._rule_seq) and self._rule_seq[i].lhs == lhs,
                                     self._rule_seq[i] in result), "int"))}


# ---- scc: Tarjan's algorithm (C19; C01 / C02 schedule the solvers by it) ---------------------------------------------
# Proved: the result is a partition of the vertex set into non-empty, pairwise disjoint components (and no KeyError /
# IndexError can occur on a closed adjacency mapping).  That the blocks are exactly the strongly connected components and
# that they come in dependency order needs reachability reasoning: bounded stand-in (props/c19_bounded.py).
def scc_closed(g):
    return forall(lambda x, y: implies(x in g and y in g[x], y in g), "PyVal,PyVal")

def tj_core(g, index, indexof, lowlink, stack, onstack):
    return (index >= 0 and forall(lambda x: (x in indexof) == (x in lowlink), "PyVal")
            and forall(lambda x: implies(x in indexof, x in g and 0 <= indexof[x] and indexof[x] < index
                                         and lowlink[x] <= indexof[x]), "PyVal")
            and forall(lambda i: implies(0 <= i and i < len(stack), stack[i] in onstack and stack[i] in indexof), "int")
            # indices increase along the stack (so its elements are distinct)
            and forall(lambda i, j: implies(0 <= i and i < j and j < len(stack), indexof[stack[i]] < indexof[stack[j]]), "int,int")
            and forall(lambda x: implies(x in onstack, exists(lambda i: 0 <= i and i < len(stack) and stack[i] == x, "int")), "PyVal")
            # no low-link of a stacked vertex, and no index of a stacked vertex, lies below the index of the bottom of the
            # stack (so the bottom vertex is the root of its component: its low-link equals its index)
            and forall(lambda i: implies(0 <= i and i < len(stack), lowlink[stack[i]] >= indexof[stack[0]]), "int")
            and forall(lambda x: implies(x in onstack and len(stack) > 0, indexof[x] >= indexof[stack[0]]), "PyVal"))

def tj_comps(indexof, onstack, comps):
    return (forall(lambda c, x: implies(0 <= c and c < len(comps) and x in comps[c], x in indexof and x not in onstack), "int,PyVal")
            and forall(lambda c, d, x: implies(0 <= c and c < d and d < len(comps), not (x in comps[c] and x in comps[d])), "int,int,PyVal")
            and forall(lambda c: implies(0 <= c and c < len(comps), exists(lambda x: x in comps[c], "PyVal")), "int"))

def tj_inv(g, index, indexof, lowlink, stack, onstack, comps):
    return (tj_core(g, index, indexof, lowlink, stack, onstack) and tj_comps(indexof, onstack, comps)
            # every numbered vertex is on the stack or in a finished component
            and forall(lambda x: implies(x in indexof, x in onstack
                                         or exists(lambda c: 0 <= c and c < len(comps) and x in comps[c], "int")), "PyVal"))

def tj_frame(indexof, lowlink, stack, comps):
    # what a call leaves alone: numbers and low-links of vertices numbered before, the stack below, the finished components
    return (forall(lambda x: implies(x in old(indexof), x in indexof and indexof[x] == old(indexof)[x]
                                     and lowlink[x] == old(lowlink)[x]), "PyVal")
            and len(stack) >= len(old(stack))
            and forall(lambda i: implies(0 <= i and i < len(old(stack)), stack[i] == old(stack)[i]), "int")
            and len(comps) >= len(old(comps))
            and forall(lambda c: implies(0 <= c and c < len(old(comps)), comps[c] == old(comps)[c]), "int"))


@contract("fggs.utils.scc.visit")
class scc_visit:
    sig = {"v": "PyVal", "g": "dict[PyVal,set[PyVal]]", "index": "int", "indexof": "dict[PyVal,int]",
           "lowlink": "dict[PyVal,int]", "stack": "list[PyVal]", "onstack": "set[PyVal]", "comps": "list[set[PyVal]]"}
    properties = ["C19", "C01", "C02"]
    captures = ["g", "index", "indexof", "lowlink", "stack", "onstack", "comps"]
    nonlocals = ["index"]
    modular = True
    modifies = ["indexof", "lowlink", "stack", "onstack", "comps", "index"]
    locals = {"comp": "set[PyVal]"}
    shards = 8
    requires = lambda v, g, index, indexof, lowlink, stack, onstack, comps: (
        scc_closed(g) and tj_inv(g, index, indexof, lowlink, stack, onstack, comps) and v in g and v not in indexof)
    loops = {
        0: lambda v, g, index, indexof, lowlink, stack, onstack, comps: (
            g == old(g) and tj_inv(g, index, indexof, lowlink, stack, onstack, comps)
            and tj_frame(indexof, lowlink, stack, comps)
            and v in indexof and v in onstack and indexof[v] == old(index) and index > old(index)
            and len(stack) > len(old(stack)) and stack[len(old(stack))] == v
            and forall(lambda x: implies(x in indexof and x not in old(indexof), indexof[x] >= old(index)), "PyVal")),
        1: lambda v, g, index, indexof, lowlink, stack, onstack, comps, comp: (
            g == old(g) and tj_core(g, index, indexof, lowlink, stack, onstack) and tj_comps(indexof, onstack, comps)
            and tj_frame(indexof, lowlink, stack, comps)
            and v in indexof and indexof[v] == old(index) and lowlink[v] == indexof[v] and index > old(index)
            and forall(lambda x: implies(x in indexof and x not in old(indexof), indexof[x] >= old(index)), "PyVal")
            and forall(lambda x: implies(x in indexof, x in onstack or x in comp
                                         or exists(lambda c: 0 <= c and c < len(comps) and x in comps[c], "int")), "PyVal")
            and forall(lambda x: implies(x in comp, x in indexof and x not in onstack and indexof[x] >= old(index)
                                         and forall(lambda c: implies(0 <= c and c < len(comps), x not in comps[c]), "int")), "PyVal")
            and implies(v not in comp, len(stack) > len(old(stack)) and stack[len(old(stack))] == v)
            and implies(v in comp, len(stack) == len(old(stack)))),
    }
    # the component just closed contains its root (the witness for "components are non-empty")
    checks = {"comps.append(comp)": lambda v, comps: v in comps[len(comps) - 1]}
    ensures = {
        "invariant": lambda v, g, index, indexof, lowlink, stack, onstack, comps: tj_inv(g, index, indexof, lowlink, stack, onstack, comps),
        "frame": lambda g, indexof, lowlink, stack, comps: g == old(g) and tj_frame(indexof, lowlink, stack, comps),
        "numbered": lambda v, index, indexof: (
            v in indexof and indexof[v] == old(index) and index > old(index)
            and forall(lambda x: implies(x in indexof and x not in old(indexof), indexof[x] >= old(index)), "PyVal")),
        # either v is the root of a component, which has been popped down to where the stack was, or v stays on the stack
        "root_or_stacked": lambda v, indexof, lowlink, stack, onstack: (
            implies(v not in onstack, lowlink[v] == indexof[v] and len(stack) == len(old(stack)))
            and implies(v in onstack, lowlink[v] != indexof[v] and len(stack) > len(old(stack)) and stack[len(old(stack))] == v)),
    }


@contract("fggs.utils.scc")
class scc:
    sig = {"g": "dict[PyVal,set[PyVal]]"}
    properties = ["C19", "C01", "C02"]
    locals = {"indexof": "dict[PyVal,int]", "lowlink": "dict[PyVal,int]", "stack": "list[PyVal]",
              "onstack": "set[PyVal]", "comps": "list[set[PyVal]]"}
    requires = lambda g: scc_closed(g)
    loops = {2: lambda g, index, indexof, lowlink, stack, onstack, comps, _i2, _it2: (
        g == old(g) and tj_inv(g, index, indexof, lowlink, stack, onstack, comps) and len(stack) == 0
        and forall(lambda j: implies(0 <= j and j < _i2, _it2[j] in indexof), "int"))}
    ensures = {
        # a partition of the vertex set: every vertex in some component, components non-empty, pairwise disjoint, made of vertices
        "covers": lambda g, result: forall(lambda x: implies(x in g, exists(lambda c: 0 <= c and c < len(result) and x in result[c], "int")), "PyVal"),
        "disjoint": lambda g, result: forall(lambda c, d, x: implies(0 <= c and c < d and d < len(result),
                                                                     not (x in result[c] and x in result[d])), "int,int,PyVal"),
        "nonempty": lambda g, result: forall(lambda c: implies(0 <= c and c < len(result), exists(lambda x: x in result[c], "PyVal")), "int"),
        "vertices_only": lambda g, result: forall(lambda c, x: implies(0 <= c and c < len(result) and x in result[c], x in g), "int,PyVal"),
        "pure": lambda g: g == old(g),
    }
