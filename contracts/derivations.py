# Contracts for fggs/derivations.py  (C15).  Spec functions of contracts/graph.py are in scope.

def ext_distinct(g):
    return forall(lambda i, j: implies(0 <= i and i < j and j < len(g._ext), g._ext[i].id != g._ext[j].id), "int,int")

def labels_compatible(g, r):
    # an edge-label name denotes the same label in both graphs (both come from one grammar)
    return forall(lambda s: implies(s in g._edge_labels and s in r._edge_labels,
                                    g._edge_labels[s] == r._edge_labels[s]), "str")

def is_ext(r, n):
    return exists(lambda j: 0 <= j and j < len(r._ext) and r._ext[j] == n, "int")

def fresh_copy(n, m):
    # m is a fresh copy of n: implicit id that was not alive at entry, same label
    return (m.label == n.label and is_int_id(m.id) and not m.persist_id
            and not old(alive(int_of(m.id))) and alive(int_of(m.id)))

def node_map_ok(graph, edge, replacement, nm, members):
    # members: the replacement nodes mapped so far (as a set);  nm: the map
    return (forall(lambda r: (r in nm) == (is_ext(replacement, r) or r in members), "Node")
            and forall(lambda j: implies(0 <= j and j < len(replacement._ext),
                                         nm[replacement._ext[j]] == edge.nodes[j]), "int")
            and forall(lambda r: implies(r in members and not is_ext(replacement, r),
                                         fresh_copy(r, nm[r]) and nm[r].id in graph._nodes
                                         and graph._nodes[nm[r].id] == nm[r]), "Node")
            and forall(lambda r, q: implies(r in members and q in members and not is_ext(replacement, r)
                                            and not is_ext(replacement, q) and r != q, nm[r].id != nm[q].id), "Node,Node"))

def nodes_view(graph, replacement, nm, members):
    return (forall(lambda k: (k in graph._nodes) == (
                k in old(graph._nodes)
                or exists(lambda r: r in members and not is_ext(replacement, r) and nm[r].id == k, "Node")), "Id")
            and forall(lambda k: implies(k in old(graph._nodes), graph._nodes[k] == old(graph._nodes)[k]), "Id"))


def edge_map_ok(graph, replacement, nm, em, done):
    return (forall(lambda r: (r in em) == (r in done), "Edge")
            and forall(lambda r: implies(r in done,
                                         em[r].label == r.label and em[r].nodes == [nm[n] for n in r.nodes]
                                         and is_int_id(em[r].id) and not em[r].persist_id
                                         and not old(alive(int_of(em[r].id))) and alive(int_of(em[r].id))
                                         and em[r].id in graph._edges and graph._edges[em[r].id] == em[r]), "Edge")
            and forall(lambda r, q: implies(r in done and q in done and r != q, em[r].id != em[q].id), "Edge,Edge"))

def edges_view(graph, edge, em, done):
    # edges' = edges - {edge} + images (that the images ARE edges of the graph is part of edge_map_ok)
    return (forall(lambda k: implies(k in graph._edges,
                                     (k in old(graph._edges) and k != edge.id)
                                     or exists(lambda r: r in done and em[r].id == k, "Edge")), "Id")
            and forall(lambda k: implies(k in old(graph._edges) and k != edge.id,
                                         k in graph._edges and graph._edges[k] == old(graph._edges)[k]), "Id")
            and edge.id not in graph._edges)


def edge_image_ok(graph, nm, r, e):
    return (e.label == r.label and e.nodes == [nm[n] for n in r.nodes]
            and is_int_id(e.id) and not e.persist_id
            and not old(alive(int_of(e.id))) and alive(int_of(e.id))
            and e.id in graph._edges and graph._edges[e.id] == e)

def edge_map_upto(graph, nm, em, it, i):
    # index form of edge_map_ok / edges_view for the loop invariant (one existential, over positions)
    return (forall(lambda r: (r in em) == exists(lambda j: 0 <= j and j < i and it[j] == r, "int"), "Edge")
            and forall(lambda j: implies(0 <= j and j < i, edge_image_ok(graph, nm, it[j], em[it[j]])), "int")
            and forall(lambda j, m: implies(0 <= j and j < m and m < i, em[it[j]].id != em[it[m]].id), "int,int"))

def edges_view_upto(graph, edge, em, it, i):
    return (forall(lambda k: implies(k in graph._edges,
                                     (k in old(graph._edges) and k != edge.id)
                                     or exists(lambda j: 0 <= j and j < i and em[it[j]].id == k, "int")), "Id")
            and forall(lambda k: implies(k in old(graph._edges) and k != edge.id,
                                         k in graph._edges and graph._edges[k] == old(graph._edges)[k]), "Id")
            and edge.id not in graph._edges)


@contract("fggs.derivations.replace_edge")
class replace_edge:
    sig = {"graph": "Graph", "edge": "Edge", "replacement": "Graph"}
    properties = ["C15"]
    locals = {"node_map": "dict[Node,Node]", "edge_map": "dict[Edge,Edge]"}
    requires = lambda graph, edge, replacement: (
        wf_graph(graph) and wf_graph(replacement) and nodes_alive(graph)
        and ext_distinct(replacement) and labels_compatible(graph, replacement))
    raises = {"ValueError": lambda graph, edge, replacement: (
        edge.label.node_labels != [n.label for n in replacement._ext]
        or not (edge.id in graph._edges and graph._edges[edge.id] == edge))}
    on_raise = {"ValueError": lambda graph, edge, replacement: same_graph_state(graph) and same_graph_state(replacement)}
    loops = {
        0: lambda graph, edge, replacement, node_map, _i0: (
            same_graph_state(replacement) and wf_graph(graph) and nodes_alive(graph)
            and graph._edges == drop(old(graph._edges), edge.id) and graph._nodes == old(graph._nodes)
            and graph._ext == old(graph._ext) and graph._edge_labels == old(graph._edge_labels)
            and graph._node_labels == old(graph._node_labels)
            and forall(lambda r: (r in node_map) == exists(
                lambda j: 0 <= j and j < _i0 and replacement._ext[j] == r, "int"), "Node")
            and forall(lambda j: implies(0 <= j and j < _i0, node_map[replacement._ext[j]] == edge.nodes[j]), "int")),
        1: lambda graph, edge, replacement, node_map, _i1, _it1: (
            same_graph_state(replacement) and wf_graph(graph) and nodes_alive(graph)
            and graph._edges == drop(old(graph._edges), edge.id)
            and graph._ext == old(graph._ext) and graph._edge_labels == old(graph._edge_labels)
            and node_map_ok(graph, edge, replacement, node_map, prefix_set(_it1, _i1))
            and nodes_view(graph, replacement, node_map, prefix_set(_it1, _i1))),
        2: lambda graph, edge, replacement, node_map, edge_map, _i2, _it2: (
            same_graph_state(replacement) and wf_graph(graph) and nodes_alive(graph)
            and graph._ext == old(graph._ext) and labels_compatible(graph, replacement)
            and node_map_ok(graph, edge, replacement, node_map, vals(replacement._nodes))
            and nodes_view(graph, replacement, node_map, vals(replacement._nodes))
            and forall(lambda j, m: implies(0 <= j and j < m and m < len(_it2), _it2[j] != _it2[m]), "int,int")
            and edge_map_upto(graph, node_map, edge_map, _it2, _i2)
            and edges_view_upto(graph, edge, edge_map, _it2, _i2)),
    }
    ensures = {
        "edge_map": lambda graph, edge, replacement, result: (
            edge_map_ok(graph, replacement, result[0], result[1], vals(replacement._edges))),
        "edges": lambda graph, edge, replacement, result: edges_view(graph, edge, result[1], vals(replacement._edges)),
        "replacement_untouched": lambda replacement: same_graph_state(replacement),
        "node_map": lambda graph, edge, replacement, result: (
            node_map_ok(graph, edge, replacement, result[0], vals(replacement._nodes))),
        "nodes": lambda graph, edge, replacement, result: (
            nodes_view(graph, replacement, result[0], vals(replacement._nodes)) and graph._ext == old(graph._ext)),
        "wf": lambda graph: wf_graph(graph),
    }


# ---- start_graph (C15): one edge labelled by the start symbol on fresh, pairwise distinct nodes of its type ------------
@contract("fggs.derivations.start_graph")
class start_graph:
    sig = {"g": "HRGStart"}
    properties = ["C15"]
    requires = lambda g: g._start.is_nonterminal
    ensures = {
        "one_edge": lambda g, result: exists(lambda k: k in result._edges
                                             and forall(lambda k2: implies(k2 in result._edges, k2 == k), "Id")
                                             and result._edges[k].label == g._start
                                             and len(result._edges[k].nodes) == len(g._start.node_labels), "Id"),
        # the attachment nodes are pairwise different nodes (one per position of the start symbol's type), all fresh
        "distinct_fresh_nodes": lambda g, result: forall(lambda k, i, j: implies(
            k in result._edges and 0 <= i and i < j and j < len(result._edges[k].nodes),
            result._edges[k].nodes[i].id != result._edges[k].nodes[j].id
            and not was_alive(int_of(result._edges[k].nodes[i].id))), "Id,int,int"),
        "nodes_are_the_attachments": lambda g, result: forall(lambda m: implies(
            m in result._nodes, exists(lambda k, i: k in result._edges and 0 <= i and i < len(result._edges[k].nodes)
                                       and result._edges[k].nodes[i].id == m, "Id,int")), "Id"),
        "no_externals": lambda result: len(result._ext) == 0,
        "wf": lambda result: wf_graph(result),
    }
