# Contracts for fggs/fggs.py: labels, nodes, edges, Graph  (C16; used by C15, C17, C05)

def ids_consistent(g):
    return (forall(lambda k: implies(k in g._nodes, g._nodes[k].id == k), "Id")
            and forall(lambda k: implies(k in g._edges, g._edges[k].id == k), "Id"))

def attachments_are_members(g):
    # every attachment node IS the node stored under its id (same label, not merely the same id)
    return forall(lambda k, j: implies(k in g._edges and 0 <= j and j < len(g._edges[k].nodes),
                                       g._edges[k].nodes[j].id in g._nodes
                                       and g._nodes[g._edges[k].nodes[j].id] == g._edges[k].nodes[j]), "Id,int")

def externals_are_members(g):
    return forall(lambda j: implies(0 <= j and j < len(g._ext),
                                    g._ext[j].id in g._nodes and g._nodes[g._ext[j].id] == g._ext[j]), "int")

def label_tables_cover(g):
    return (forall(lambda k: implies(k in g._nodes,
                                     g._nodes[k].label.name in g._node_labels
                                     and g._node_labels[g._nodes[k].label.name] == g._nodes[k].label), "Id")
            and forall(lambda k: implies(k in g._edges,
                                         g._edges[k].label.name in g._edge_labels
                                         and g._edge_labels[g._edges[k].label.name] == g._edges[k].label), "Id"))

def label_tables_keyed_by_name(t):
    return (forall(lambda s: implies(s in t._edge_labels, t._edge_labels[s].name == s), "str")
            and forall(lambda s: implies(s in t._node_labels, t._node_labels[s].name == s), "str"))

def wf_graph(g):
    return (ids_consistent(g) and attachments_are_members(g) and externals_are_members(g)
            and label_tables_cover(g) and label_tables_keyed_by_name(g))

def same_graph_state(g):
    return (g._nodes == old(g._nodes) and g._edges == old(g._edges) and g._ext == old(g._ext)
            and g._node_labels == old(g._node_labels) and g._edge_labels == old(g._edge_labels))


@contract("fggs.fggs.Graph.add_node")
class Graph_add_node:
    sig = {"self": "Graph", "node": "Node"}
    properties = ["C16", "C15"]
    modular = True
    modifies = ["self._nodes", "self._node_labels"]
    requires = lambda self, node: wf_graph(self)
    ensures = {
        "wf": lambda self, node: wf_graph(self),
        "view": lambda self, node: (self._nodes == put(old(self._nodes), node.id, node)
                                    and self._node_labels == put(old(self._node_labels), node.label.name, node.label)),
        "frame": lambda self, node: (self._edges == old(self._edges) and self._ext == old(self._ext)
                                     and self._edge_labels == old(self._edge_labels)),
    }
    raises = {"ValueError": lambda self, node: node.id in self._nodes}
    on_raise = {"ValueError": lambda self, node: same_graph_state(self)}


# ---- immutable values -----------------------------------------------------------------------------
@contract("fggs.fggs.EdgeLabel.__init__")
class EdgeLabel_init:
    sig = {"name": "str", "node_labels": "seq[NodeLabel]", "is_nonterminal": "bool", "is_terminal": "bool"}
    properties = ["C16"]
    ensures = {
        "fields": lambda name, node_labels, is_nonterminal, is_terminal, result: (
            result.name == name and result.node_labels == node_labels and result.is_terminal == is_terminal
            and result.is_nonterminal == is_nonterminal and result.arity == len(node_labels)
            and result.type == node_labels),
    }
    raises = {"ValueError": lambda name, node_labels, is_nonterminal, is_terminal: is_terminal == is_nonterminal}


@contract("fggs.fggs.Node.__init__")
class Node_init:
    sig = {"label": "NodeLabel", "id": "Id"}
    properties = ["C16", "C15"]
    ensures = {
        "fields": lambda label, id, result: (
            result.label == label
            and implies(id is not None, result.id == id and result.persist_id)
            and implies(id is None, is_int_id(result.id) and not result.persist_id)),
        "fresh_id": lambda label, id, result: implies(
            id is None, alive(int_of(result.id)) and not old(alive(int_of(result.id)))),
    }
    raises = {"TypeError": lambda label, id: id is not None and not is_str_id(id)}


@contract("fggs.fggs.Edge.__init__")
class Edge_init:
    sig = {"label": "EdgeLabel", "nodes": "seq[Node]", "id": "Id"}
    properties = ["C16", "C15"]
    ensures = {
        "fields": lambda label, nodes, id, result: (
            result.label == label and result.nodes == nodes
            and implies(id is not None, result.id == id and result.persist_id)
            and implies(id is None, is_int_id(result.id) and not result.persist_id
                        and alive(int_of(result.id)) and not old(alive(int_of(result.id))))),
        "typed": lambda label, nodes, id, result: (
            len(result.label.node_labels) == len(result.nodes)
            and forall(lambda j: implies(0 <= j and j < len(result.nodes),
                                         result.label.node_labels[j] == result.nodes[j].label), "int")),
    }
    raises = {
        "TypeError": lambda label, nodes, id: id is not None and not is_str_id(id),
        "ValueError": lambda label, nodes, id: (not (id is not None and not is_str_id(id))
                                                and label.type != [n.label for n in nodes]),
    }


# ---- label tables ---------------------------------------------------------------------------------
@contract("fggs.fggs.LabelingMixin.add_node_label")
class add_node_label:
    sig = {"self": "LabelTable", "label": "NodeLabel"}
    properties = ["C16"]
    requires = lambda self, label: label_tables_keyed_by_name(self)
    ensures = {
        "view": lambda self, label: (self._node_labels == put(old(self._node_labels), label.name, label)
                                     and self._edge_labels == old(self._edge_labels)),
        "keyed": lambda self, label: label_tables_keyed_by_name(self),
    }


@contract("fggs.fggs.LabelingMixin.add_edge_label")
class add_edge_label:
    sig = {"self": "LabelTable", "label": "EdgeLabel"}
    properties = ["C16"]
    requires = lambda self, label: label_tables_keyed_by_name(self)
    ensures = {
        "view": lambda self, label: (self._edge_labels == put(old(self._edge_labels), label.name, label)
                                     and self._node_labels == old(self._node_labels)),
        "keyed": lambda self, label: label_tables_keyed_by_name(self),
    }
    raises = {"ValueError": lambda self, label: (label.name in self._edge_labels
                                                 and self._edge_labels[label.name] != label)}
    on_raise = {"ValueError": lambda self, label: (self._edge_labels == old(self._edge_labels)
                                                   and self._node_labels == old(self._node_labels))}


@contract("fggs.fggs.LabelingMixin.get_edge_label")
class get_edge_label:
    sig = {"self": "LabelTable", "name": "str"}
    properties = ["C16"]
    ensures = {"value": lambda self, name, result: result == self._edge_labels[name]
               and self._edge_labels == old(self._edge_labels)}
    raises = {"KeyError": lambda self, name: name not in self._edge_labels}


@contract("fggs.fggs.LabelingMixin.has_edge_label_name")
class has_edge_label_name:
    sig = {"self": "LabelTable", "name": "str"}
    properties = ["C16"]
    ensures = {"value": lambda self, name, result: result == (name in self._edge_labels)}


# ---- Graph ----------------------------------------------------------------------------------------
@contract("fggs.fggs.Graph.__init__")
class Graph_init:
    sig = {"self": "Graph"}
    properties = ["C16"]
    ensures = {
        "empty": lambda self: (forall(lambda k: k not in self._nodes and k not in self._edges, "Id")
                               and forall(lambda s: s not in self._node_labels and s not in self._edge_labels, "str")
                               and len(self._ext) == 0),
        "wf": lambda self: wf_graph(self),
    }


@contract("fggs.fggs.Graph.new_node")
class Graph_new_node:
    sig = {"self": "Graph", "name": "str", "id": "Id"}
    properties = ["C16"]
    requires = lambda self, name, id: (wf_graph(self) and nodes_alive(self))
    ensures = {
        "wf": lambda self, name, id, result: wf_graph(self),
        "view": lambda self, name, id, result: (
            result.label.name == name and implies(id is not None, result.id == id)
            and old(result.id not in self._nodes)
            and self._nodes == put(old(self._nodes), result.id, result)
            and self._node_labels == put(old(self._node_labels), name, result.label)
            and self._edges == old(self._edges) and self._ext == old(self._ext)
            and self._edge_labels == old(self._edge_labels)),
    }
    raises = {
        "TypeError": lambda self, name, id: id is not None and not is_str_id(id),
        "ValueError": lambda self, name, id: is_str_id(id) and id in self._nodes,
    }
    on_raise = {"*": lambda self, name, id: same_graph_state(self)}


@contract("fggs.fggs.Graph.remove_node")
class Graph_remove_node:
    sig = {"self": "Graph", "node": "Node"}
    properties = ["C16"]
    requires = lambda self, node: wf_graph(self)
    loops = {0: lambda self, node, _i, _it: (
        same_graph_state(self)
        and forall(lambda j: implies(0 <= j and j < _i, node not in _it[j].nodes), "int"))}
    ensures = {
        "wf": lambda self, node: wf_graph(self),
        "view": lambda self, node: (self._nodes == drop(old(self._nodes), node.id)
                                    and self._edges == old(self._edges) and self._ext == old(self._ext)
                                    and self._node_labels == old(self._node_labels)
                                    and self._edge_labels == old(self._edge_labels)),
    }
    # the property: a node that is used (as attachment or external node) cannot be removed, and
    # only a node OF THE GRAPH can be removed
    raises = {"ValueError": lambda self, node: (
        not (node.id in self._nodes and self._nodes[node.id] == node)
        or exists(lambda k: k in self._edges and node in self._edges[k].nodes, "Id")
        or node in self._ext)}
    on_raise = {"ValueError": lambda self, node: same_graph_state(self)}


@contract("fggs.fggs.Graph.remove_edge")
class Graph_remove_edge:
    sig = {"self": "Graph", "edge": "Edge"}
    properties = ["C16", "C15"]
    modular = True
    modifies = ["self._edges"]
    requires = lambda self, edge: wf_graph(self)
    ensures = {
        "wf": lambda self, edge: wf_graph(self),
        "view": lambda self, edge: (self._edges == drop(old(self._edges), edge.id)
                                    and self._nodes == old(self._nodes) and self._ext == old(self._ext)
                                    and self._node_labels == old(self._node_labels)
                                    and self._edge_labels == old(self._edge_labels)),
    }
    # only an edge OF THE GRAPH can be removed (replace_edge relies on this to reject a foreign edge)
    raises = {"ValueError": lambda self, edge: not (edge.id in self._edges and self._edges[edge.id] == edge)}
    on_raise = {"ValueError": lambda self, edge: same_graph_state(self)}


def nodes_alive(g):
    return (forall(lambda k: implies(k in g._nodes and is_int_id(k), alive(int_of(k))), "Id")
            and forall(lambda k: implies(k in g._edges and is_int_id(k), alive(int_of(k))), "Id"))


def nodes_conflict(g, nodes):
    # some node of `nodes` re-uses the id of a different node (of the graph, or earlier in `nodes`)
    return (exists(lambda j: 0 <= j and j < len(nodes) and nodes[j].id in g._nodes
                   and g._nodes[nodes[j].id] != nodes[j], "int")
            or exists(lambda j, m: 0 <= j and j < m and m < len(nodes)
                      and nodes[j].id == nodes[m].id and nodes[j] != nodes[m], "int,int"))

def nodes_added(g, nodes, upto):
    # the node table of g is the old one plus nodes[0:upto]
    return (forall(lambda k: (k in g._nodes) == (k in old(g._nodes)
                                                 or exists(lambda j: 0 <= j and j < upto and nodes[j].id == k, "int")), "Id")
            and forall(lambda k: implies(k in old(g._nodes), g._nodes[k] == old(g._nodes)[k]), "Id")
            and forall(lambda j: implies(0 <= j and j < upto, g._nodes[nodes[j].id] == nodes[j]), "int")
            and forall(lambda s: (s in g._node_labels) == (s in old(g._node_labels)
                       or exists(lambda j: 0 <= j and j < upto and nodes[j].label.name == s
                                 and nodes[j].id not in old(g._nodes), "int")), "str"))


@contract("fggs.fggs.Graph.add_edge")
class Graph_add_edge:
    sig = {"self": "Graph", "edge": "Edge"}
    properties = ["C16", "C15"]
    modular = True
    modifies = ["self._nodes", "self._node_labels", "self._edges", "self._edge_labels"]
    requires = lambda self, edge: wf_graph(self)
    loops = {0: lambda self, edge, _i: add_loop_inv(self, edge.nodes, _i) and not nodes_conflict_old(self, edge.nodes)}
    ensures = {
        "wf": lambda self, edge: wf_graph(self),
        "view": lambda self, edge: (
            self._edges == put(old(self._edges), edge.id, edge)
            and self._edge_labels == put(old(self._edge_labels), edge.label.name, edge.label)
            and self._ext == old(self._ext)
            and nodes_added(self, edge.nodes, len(edge.nodes))),
    }
    raises = {"ValueError": lambda self, edge: (
        edge.id in self._edges
        or (edge.label.name in self._edge_labels and self._edge_labels[edge.label.name] != edge.label)
        or nodes_conflict(self, edge.nodes))}
    on_raise = {"ValueError": lambda self, edge: same_graph_state(self)}


def add_loop_inv(g, nodes, i):
    return (g._edges == old(g._edges) and g._edge_labels == old(g._edge_labels) and g._ext == old(g._ext)
            and nodes_added(g, nodes, i)
            and label_tables_keyed_by_name(g)
            and forall(lambda k: implies(k in g._nodes, g._nodes[k].id == k
                                         and g._nodes[k].label.name in g._node_labels
                                         and g._node_labels[g._nodes[k].label.name] == g._nodes[k].label), "Id"))


@contract("fggs.fggs.Graph._check_new_nodes")
class Graph_check_new_nodes:
    sig = {"self": "Graph", "nodes": "seq[Node]"}
    properties = ["C16", "C15"]
    locals = {"seen": "dict[Id,Node]"}
    requires = lambda self, nodes: wf_graph(self)
    loops = {0: lambda self, nodes, seen, _i: (
        same_graph_state(self)
        and forall(lambda j: implies(0 <= j and j < _i and nodes[j].id in self._nodes,
                                     self._nodes[nodes[j].id] == nodes[j]), "int")
        and forall(lambda j, m: implies(0 <= j and j < m and m < _i and nodes[j].id == nodes[m].id,
                                        nodes[j] == nodes[m]), "int,int")
        and forall(lambda k: (k in seen) == exists(lambda j: 0 <= j and j < _i and nodes[j].id == k, "int"), "Id")
        and forall(lambda j: implies(0 <= j and j < _i, seen[nodes[j].id] == nodes[j]), "int"))}
    ensures = {"pure": lambda self, nodes: same_graph_state(self)}
    raises = {"ValueError": lambda self, nodes: nodes_conflict(self, nodes)}
    on_raise = {"ValueError": lambda self, nodes: same_graph_state(self)}


@contract("fggs.fggs.Graph.ext.setter")
class Graph_ext_setter:
    sig = {"self": "Graph", "nodes": "seq[Node]"}
    properties = ["C16"]
    requires = lambda self, nodes: wf_graph(self)
    loops = {0: lambda self, nodes, _i: add_loop_inv(self, nodes, _i) and not nodes_conflict_old(self, nodes)}
    ensures = {
        "wf": lambda self, nodes: wf_graph(self),
        "view": lambda self, nodes: (self._ext == nodes and self._edges == old(self._edges)
                                     and self._edge_labels == old(self._edge_labels)
                                     and nodes_added(self, nodes, len(nodes))),
    }
    raises = {"ValueError": lambda self, nodes: nodes_conflict(self, nodes)}
    on_raise = {"ValueError": lambda self, nodes: same_graph_state(self)}


def nodes_conflict_old(g, nodes):
    return (exists(lambda j: 0 <= j and j < len(nodes) and nodes[j].id in old(g._nodes)
                   and old(g._nodes)[nodes[j].id] != nodes[j], "int")
            or exists(lambda j, m: 0 <= j and j < m and m < len(nodes)
                      and nodes[j].id == nodes[m].id and nodes[j] != nodes[m], "int,int"))


@contract("fggs.fggs.Graph.copy")
class Graph_copy:
    sig = {"self": "Graph"}
    properties = ["C16", "C18"]
    requires = lambda self: wf_graph(self)
    ensures = {
        "equal": lambda self, result: (result._nodes == self._nodes and result._edges == self._edges
                                       and result._ext == self._ext
                                       and result._node_labels == self._node_labels
                                       and result._edge_labels == self._edge_labels),
        "independent": lambda self, result: is_fresh(result),
        "source_untouched": lambda self, result: same_graph_state(self),
        "wf": lambda self, result: wf_graph(result),
    }


@contract("fggs.fggs.Graph.__eq__")
class Graph_eq:
    sig = {"self": "Graph", "other": "Graph"}
    properties = ["C16"]
    ensures = {"decides": lambda self, other, result: result == (
        self._nodes == other._nodes and self._edges == other._edges and self._ext == other._ext)}


@contract("fggs.fggs.Graph.new_edge")
class Graph_new_edge:
    sig = {"self": "Graph", "name": "str", "nodes": "seq[Node]", "is_terminal": "bool",
           "is_nonterminal": "bool", "id": "Id"}
    properties = ["C16"]
    requires = lambda self, name, nodes, is_terminal, is_nonterminal, id: wf_graph(self) and nodes_alive(self)
    ensures = {
        "wf": lambda self, result: wf_graph(self),
        "edge": lambda self, name, nodes, is_terminal, id, result: (
            result.label.name == name and result.label.is_terminal == is_terminal
            and result.label.node_labels == [n.label for n in nodes] and result.nodes == nodes
            and implies(id is not None, result.id == id)
            and old(result.id not in self._edges)),
        "view": lambda self, nodes, result: (
            self._edges == put(old(self._edges), result.id, result)
            and self._edge_labels == put(old(self._edge_labels), result.label.name, result.label)
            and self._ext == old(self._ext)
            and nodes_added(self, nodes, len(nodes))),
    }
    raises = {
        "ValueError": lambda self, name, nodes, is_terminal, is_nonterminal, id: (
            is_terminal == is_nonterminal
            or (not (id is not None and not is_str_id(id))
                and ((is_str_id(id) and id in self._edges)
                     or (name in self._edge_labels
                         and (self._edge_labels[name].is_terminal != is_terminal
                              or self._edge_labels[name].node_labels != [n.label for n in nodes]))
                     or nodes_conflict(self, nodes)))),
        "TypeError": lambda self, name, nodes, is_terminal, is_nonterminal, id: (
            is_terminal != is_nonterminal and id is not None and not is_str_id(id)),
    }
    on_raise = {"*": lambda self: same_graph_state(self)}


@contract("fggs.fggs.HRGRule.__post_init__")
class HRGRule_post_init:
    sig = {"self": "HRGRule"}
    properties = ["C16"]
    ensures = {"typed": lambda self: (not self.lhs.is_terminal
                                      and self.lhs.node_labels == [n.label for n in self.rhs._ext]
                                      and same_graph_state(self.rhs))}
    raises = {"Exception": lambda self: (self.lhs.is_terminal
                                         or self.lhs.node_labels != [n.label for n in self.rhs._ext])}
    on_raise = {"Exception": lambda self: same_graph_state(self.rhs)}


# ---- interpretation (domains / factors bound to labels) ----------------------------------------------
def same_interp_state(t):
    return (t._node_labels == old(t._node_labels) and t._edge_labels == old(t._edge_labels)
            and t.domains == old(t.domains) and t.factors == old(t.factors))


@contract("fggs.fggs.InterpretationMixin.add_domain")
class add_domain:
    sig = {"self": "Interp", "nl": "NodeLabel", "dom": "Domain"}
    properties = ["C16", "C20"]
    requires = lambda self, nl, dom: label_tables_keyed_by_name(self)
    ensures = {"view": lambda self, nl, dom: (
        self.domains == put(old(self.domains), nl.name, dom)
        and self._node_labels == put(old(self._node_labels), nl.name, nl)
        and self._edge_labels == old(self._edge_labels) and self.factors == old(self.factors))}
    raises = {"ValueError": lambda self, nl, dom: nl.name in self.domains}
    on_raise = {"ValueError": lambda self, nl, dom: same_interp_state(self)}


def factor_fits(t, el, fac):
    return (fac.arity == el.arity
            and forall(lambda j: implies(0 <= j and j < len(el.node_labels),
                                         el.node_labels[j].name in t.domains
                                         and t.domains[el.node_labels[j].name] == fac.domains[j]), "int"))


@contract("fggs.fggs.InterpretationMixin.add_factor")
class add_factor:
    sig = {"self": "Interp", "el": "EdgeLabel", "fac": "Factor"}
    properties = ["C16", "C20"]
    requires = lambda self, el, fac: label_tables_keyed_by_name(self)
    loops = {0: lambda self, el, fac, _i: (
        self.domains == old(self.domains) and self.factors == old(self.factors)
        and self._node_labels == old(self._node_labels)
        and self._edge_labels == old(self._edge_labels)
        and forall(lambda j: implies(0 <= j and j < _i,
                                     el.node_labels[j].name in self.domains
                                     and self.domains[el.node_labels[j].name] == fac.domains[j]), "int"))}
    ensures = {"view": lambda self, el, fac: (
        self.factors == put(old(self.factors), el.name, fac)
        and self._edge_labels == put(old(self._edge_labels), el.name, el)
        and self.domains == old(self.domains) and self._node_labels == old(self._node_labels)
        and factor_fits(self, el, fac))}
    # binding succeeds only if the label is a terminal, denotes one label, is not already bound,
    # and arity and every domain match
    raises = {"ValueError": lambda self, el, fac: (
        el.is_nonterminal
        or (el.name in self._edge_labels and self._edge_labels[el.name] != el)
        or el.name in self.factors
        or not factor_fits(self, el, fac))}
    on_raise = {"ValueError": lambda self, el, fac: same_interp_state(self)}


@contract("fggs.fggs.InterpretationMixin.shape")
class shape_of_nodes:
    sig = {"self": "Interp", "x": "seq[Node]"}
    properties = ["C20"]
    ensures = {"value": lambda self, x, result: (
        result == [self.domains[n.label.name].size() for n in x] and same_interp_state(self))}
    raises = {"KeyError": lambda self, x: exists(
        lambda j: 0 <= j and j < len(x) and x[j].label.name not in self.domains, "int")}


@contract("fggs.fggs.LabelingMixin.nonterminals")
class nonterminals:
    sig = {"self": "LabelTable"}
    properties = ["C16", "C19"]
    ensures = {"exactly_the_nonterminals": lambda self, result: (
        forall(lambda l: (l in result) == (l in vals(self._edge_labels) and l.is_nonterminal), "EdgeLabel")
        and self._edge_labels == old(self._edge_labels))}


@contract("fggs.fggs.LabelingMixin.terminals")
class terminals:
    sig = {"self": "LabelTable"}
    properties = ["C16"]
    ensures = {"exactly_the_terminals": lambda self, result: (
        forall(lambda l: (l in result) == (l in vals(self._edge_labels) and l.is_terminal), "EdgeLabel")
        and self._edge_labels == old(self._edge_labels))}


# ---- HRG: label tables under add_rule / new_rule (the rule table itself is opaque, see DESIGN R2) ----------
def rule_label_conflict(h, rule):
    return ((rule.lhs.name in h._edge_labels and h._edge_labels[rule.lhs.name] != rule.lhs)
            or exists(lambda k: k in rule.rhs._edges
                      and ((rule.rhs._edges[k].label.name in h._edge_labels
                            and h._edge_labels[rule.rhs._edges[k].label.name] != rule.rhs._edges[k].label)
                           or (rule.rhs._edges[k].label.name == rule.lhs.name
                               and rule.rhs._edges[k].label != rule.lhs)), "Id"))

def tables_after_rule(h, rule):
    return (forall(lambda s: (s in h._edge_labels) == (
                s in old(h._edge_labels) or s == rule.lhs.name
                or exists(lambda k: k in rule.rhs._edges and rule.rhs._edges[k].label.name == s, "Id")), "str")
            and forall(lambda s: implies(s in old(h._edge_labels), h._edge_labels[s] == old(h._edge_labels)[s]), "str")
            and h._edge_labels[rule.lhs.name] == rule.lhs
            and forall(lambda k: implies(k in rule.rhs._edges,
                                         h._edge_labels[rule.rhs._edges[k].label.name] == rule.rhs._edges[k].label), "Id")
            and forall(lambda s: (s in h._node_labels) == (
                s in old(h._node_labels)
                or exists(lambda k: k in rule.rhs._nodes and rule.rhs._nodes[k].label.name == s, "Id")), "str"))


@contract("fggs.fggs.HRG.add_rule")
class HRG_add_rule:
    sig = {"self": "HRGLabels", "rule": "HRGRule"}
    properties = ["C16"]
    requires = lambda self, rule: (label_tables_keyed_by_name(self) and wf_graph(rule.rhs))
    loops = {
        0: lambda self, rule, _i0, _it0: (
            same_tables(self) and same_graph_state(rule.rhs)
            and forall(lambda j: implies(0 <= j and j < _i0,
                                         not (_it0[j].label.name in self._edge_labels
                                              and self._edge_labels[_it0[j].label.name] != _it0[j].label)
                                         and not (_it0[j].label.name == rule.lhs.name and _it0[j].label != rule.lhs)), "int")),
        1: lambda self, rule, _i1, _it1: (
            same_graph_state(rule.rhs) and label_tables_keyed_by_name(self) and not old(rule_label_conflict(self, rule))
            and self._edge_labels == put(old(self._edge_labels), rule.lhs.name, rule.lhs)
            and forall(lambda s: (s in self._node_labels) == (
                s in old(self._node_labels) or exists(lambda j: 0 <= j and j < _i1 and _it1[j].label.name == s, "int")), "str")),
        2: lambda self, rule, _i2, _it2: (
            same_graph_state(rule.rhs) and label_tables_keyed_by_name(self) and not old(rule_label_conflict(self, rule))
            and forall(lambda s: (s in self._node_labels) == (
                s in old(self._node_labels)
                or exists(lambda k: k in rule.rhs._nodes and rule.rhs._nodes[k].label.name == s, "Id")), "str")
            and forall(lambda s: (s in self._edge_labels) == (
                s in old(self._edge_labels) or s == rule.lhs.name
                or exists(lambda j: 0 <= j and j < _i2 and _it2[j].label.name == s, "int")), "str")
            and forall(lambda s: implies(s in old(self._edge_labels), self._edge_labels[s] == old(self._edge_labels)[s]), "str")
            and self._edge_labels[rule.lhs.name] == rule.lhs
            and forall(lambda j: implies(0 <= j and j < _i2, self._edge_labels[_it2[j].label.name] == _it2[j].label), "int")),
    }
    ensures = {
        "tables": lambda self, rule: tables_after_rule(self, rule),
        "keyed": lambda self, rule: label_tables_keyed_by_name(self),
        "rhs_untouched": lambda self, rule: same_graph_state(rule.rhs),
    }
    raises = {"ValueError": lambda self, rule: rule_label_conflict(self, rule)}
    on_raise = {"ValueError": lambda self, rule: same_tables(self) and same_graph_state(rule.rhs)}


def same_tables(t):
    return t._node_labels == old(t._node_labels) and t._edge_labels == old(t._edge_labels)


def is_the_lhs(l, name, rhs):
    # l is the nonterminal label that new_rule builds for `name`: typed by the external nodes of rhs
    return l.name == name and l.is_nonterminal and l.node_labels == [n.label for n in rhs._ext]


@contract("fggs.fggs.HRG.new_rule")
class HRG_new_rule:
    sig = {"self": "HRGLabels", "lhs": "str", "rhs": "Graph"}
    properties = ["C16"]
    requires = lambda self, lhs, rhs: label_tables_keyed_by_name(self) and wf_graph(rhs)
    ensures = {
        "rule": lambda self, lhs, rhs, result: (is_the_lhs(result.lhs, lhs, rhs) and result.rhs is rhs
                                                and same_graph_state(rhs)),
        "tables": lambda self, lhs, rhs, result: tables_after_rule(self, result) and label_tables_keyed_by_name(self),
    }
    raises = {"ValueError": lambda self, lhs, rhs: (
        (lhs in self._edge_labels and not is_the_lhs(self._edge_labels[lhs], lhs, rhs))
        or exists(lambda k: k in rhs._edges
                  and ((rhs._edges[k].label.name in self._edge_labels
                        and self._edge_labels[rhs._edges[k].label.name] != rhs._edges[k].label)
                       or (rhs._edges[k].label.name == lhs and not is_the_lhs(rhs._edges[k].label, lhs, rhs))), "Id"))}
    on_raise = {"ValueError": lambda self, lhs, rhs: same_tables(self) and same_graph_state(rhs)}


# ---- HRGRule.copy and == (C16: copies are equal to and independent of their originals) ------------------------------
@contract("fggs.fggs.HRGRule.copy")
class HRGRule_copy:
    sig = {"self": "HRGRule"}
    properties = ["C16", "C18"]
    requires = lambda self: (wf_graph(self.rhs) and not self.lhs.is_terminal
                             and self.lhs.node_labels == [n.label for n in self.rhs._ext])
    ensures = {
        "equal": lambda self, result: (result.lhs == self.lhs and result.rhs._nodes == self.rhs._nodes
                                       and result.rhs._edges == self.rhs._edges and result.rhs._ext == self.rhs._ext
                                       and result.rhs._node_labels == self.rhs._node_labels
                                       and result.rhs._edge_labels == self.rhs._edge_labels),
        # a new rule object with a new right-hand side graph whose containers are new too
        "independent": lambda self, result: is_fresh(result) and result.rhs is not self.rhs,
        "source_untouched": lambda self: same_graph_state(self.rhs),
    }


# ---- HRG.copy and == over the whole grammar (C16): rules as snapshots, start symbol set ------------------------------
@contract("fggs.fggs.HRG.copy")
class HRG_copy:
    sig = {"self": "HRGFull"}
    properties = ["C16", "C18"]
    requires = lambda self: label_tables_keyed_by_name(self) and self._start.is_nonterminal
    loops = {0: lambda self, copy, _i0, _it0: (
        self._rules == old(self._rules) and self._node_labels == old(self._node_labels)
        and self._edge_labels == old(self._edge_labels) and self._start == old(self._start)
        and copy._node_labels == self._node_labels and copy._edge_labels == self._edge_labels and copy._start == self._start
        and forall(lambda l: (l in copy._rules) == exists(lambda j: 0 <= j and j < _i0 and _it0[j] == l, "int"), "EdgeLabel")
        and forall(lambda l: implies(l in copy._rules, copy._rules[l] == self._rules[l]), "EdgeLabel"))}
    ensures = {
        "equal": lambda self, result: (result._rules == self._rules and result._start == self._start
                                       and result._node_labels == self._node_labels
                                       and result._edge_labels == self._edge_labels),
        "independent": lambda self, result: is_fresh(result),
        "source_untouched": lambda self: (self._rules == old(self._rules) and self._start == old(self._start)
                                          and self._node_labels == old(self._node_labels)
                                          and self._edge_labels == old(self._edge_labels)),
    }


@contract("fggs.fggs.HRG.__eq__")
class HRG_eq:
    sig = {"self": "HRGFull", "other": "HRGFull"}
    properties = ["C16"]
    ensures = {"decides": lambda self, other, result: result == (
        self._rules == other._rules and self._start == other._start
        and self._node_labels == other._node_labels and self._edge_labels == other._edge_labels)}


# ---- HRG.start setter with an EdgeLabel (C16): exception safe, registers the label ------------------------------------
@contract("fggs.fggs.HRG.start.setter")
class HRG_start_setter:
    sig = {"self": "HRGFull", "start": "EdgeLabel"}
    properties = ["C16"]
    requires = lambda self, start: label_tables_keyed_by_name(self)
    ensures = {
        "set_and_registered": lambda self, start: (
            self._start == start and self._edge_labels == put(old(self._edge_labels), start.name, start)
            and self._node_labels == old(self._node_labels) and self._rules == old(self._rules)),
        "keyed": lambda self, start: label_tables_keyed_by_name(self),
    }
    raises = {"ValueError": lambda self, start: (
        start.is_terminal or (start.name in self._edge_labels and self._edge_labels[start.name] != start))}
    on_raise = {"ValueError": lambda self, start: (
        self._start == old(self._start) and self._edge_labels == old(self._edge_labels)
        and self._node_labels == old(self._node_labels) and self._rules == old(self._rules))}
