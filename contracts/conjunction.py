# Contracts for fggs/conjunction.py  (C17).  Spec functions of contracts/graph.py are in scope.

@contract("fggs.conjunction.check_namespace_collisions")
class check_namespace_collisions:
    sig = {"hrg1": "LabelTable", "hrg2": "LabelTable"}
    properties = ["C17"]
    locals = {"node_collisions": "list[seq[NodeLabel]]", "edge_collisions": "list[seq[EdgeLabel]]"}
    requires = lambda hrg1, hrg2: label_tables_keyed_by_name(hrg1) and label_tables_keyed_by_name(hrg2)
    loops = {
        0: lambda hrg1, hrg2, node_collisions, _i0, _it0: (
            same_tables(hrg1) and same_tables(hrg2)
            and forall(lambda a, b: ((a, b) in node_collisions) == (
                exists(lambda j: 0 <= j and j < _i0 and _it0[j] == a, "int")
                and a.name in hrg2._node_labels and hrg2._node_labels[a.name] == b and a != b),
                "NodeLabel,NodeLabel")),
        1: lambda hrg1, hrg2, node_collisions, edge_collisions, _i1, _it1: (
            same_tables(hrg1) and same_tables(hrg2)
            and forall(lambda a, b: ((a, b) in edge_collisions) == (
                exists(lambda j: 0 <= j and j < _i1 and _it1[j] == a, "int")
                and a.name in hrg2._edge_labels and hrg2._edge_labels[a.name] == b and a != b),
                "EdgeLabel,EdgeLabel")),
    }
    ensures = {
        # exactly the pairs of labels with equal names and unequal labels
        "edge_collisions": lambda hrg1, hrg2, result: forall(
            lambda a, b: ((a, b) in result[1]) == (
                a in vals(hrg1._edge_labels) and a.name in hrg2._edge_labels
                and hrg2._edge_labels[a.name] == b and a != b), "EdgeLabel,EdgeLabel"),
        "node_collisions": lambda hrg1, hrg2, result: forall(
            lambda a, b: ((a, b) in result[0]) == (
                a in vals(hrg1._node_labels) and a.name in hrg2._node_labels
                and hrg2._node_labels[a.name] == b and a != b), "NodeLabel,NodeLabel"),
        "pure": lambda hrg1, hrg2: same_tables(hrg1) and same_tables(hrg2),
    }



def nts_of(t):
    return [el for el in vals_seq(t._edge_labels) if el.is_nonterminal]

def pairs_ok(nt_map, l0):
    # values are nonterminals typed like the first component, with names that are pairwise distinct
    # and differ from every name in l0
    return (forall(lambda p: implies(p in nt_map, len(p) == 2 and nt_map[p].is_nonterminal
                                     and nt_map[p].node_labels == p[0].node_labels
                                     and forall(lambda l: implies(l in l0, l.name != nt_map[p].name), "EdgeLabel")),
                   "seq[EdgeLabel]")
            and forall(lambda p, q: implies(p in nt_map and q in nt_map and p != q,
                                            nt_map[p].name != nt_map[q].name), "seq[EdgeLabel],seq[EdgeLabel]"))


@contract("fggs.conjunction.nonterminal_pairs")
class nonterminal_pairs:
    sig = {"hrg1": "LabelTable", "hrg2": "LabelTable"}
    properties = ["C17"]
    locals = {"nt_map": "dict[seq[EdgeLabel],EdgeLabel]"}
    requires = lambda hrg1, hrg2: label_tables_keyed_by_name(hrg1) and label_tables_keyed_by_name(hrg2)
    loops = {
        0: lambda hrg1, hrg2, nt_map, labels, _i0, _it0: (
            same_tables(hrg1) and same_tables(hrg2)
            and pairs_ok(nt_map, vals(hrg1._edge_labels) | vals(hrg2._edge_labels))
            and forall(lambda l: implies(l in vals(hrg1._edge_labels) or l in vals(hrg2._edge_labels)
                                         or l in vals(nt_map), l in labels), "EdgeLabel")
            and forall(lambda a, b: ((a, b) in nt_map) == (
                exists(lambda j: 0 <= j and j < _i0 and _it0[j] == a, "int")
                and b in vals(hrg2._edge_labels) and b.is_nonterminal), "EdgeLabel,EdgeLabel")),
        1: lambda hrg1, hrg2, nt_map, labels, el1, _i0, _it0, _i1, _it1: (
            same_tables(hrg1) and same_tables(hrg2)
            and pairs_ok(nt_map, vals(hrg1._edge_labels) | vals(hrg2._edge_labels))
            and forall(lambda l: implies(l in vals(hrg1._edge_labels) or l in vals(hrg2._edge_labels)
                                         or l in vals(nt_map), l in labels), "EdgeLabel")
            and forall(lambda a, b: ((a, b) in nt_map) == (
                (exists(lambda j: 0 <= j and j < _i0 and _it0[j] == a, "int")
                 and b in vals(hrg2._edge_labels) and b.is_nonterminal)
                or (a == el1 and exists(lambda j: 0 <= j and j < _i1 and _it1[j] == b, "int"))),
                "EdgeLabel,EdgeLabel")),
    }
    ensures = {
        "total_on_pairs": lambda hrg1, hrg2, result: forall(
            lambda a, b: ((a, b) in result) == (a in vals(hrg1._edge_labels) and a.is_nonterminal
                                                and b in vals(hrg2._edge_labels) and b.is_nonterminal),
            "EdgeLabel,EdgeLabel"),
        "fresh_unique_typed": lambda hrg1, hrg2, result: pairs_ok(
            result, vals(hrg1._edge_labels) | vals(hrg2._edge_labels)),
        "pure": lambda hrg1, hrg2: same_tables(hrg1) and same_tables(hrg2),
    }
