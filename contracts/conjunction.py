# Contracts for fggs/conjunction.py  (C17).  Spec functions of contracts/graph.py are in scope.

@contract("fggs.conjunction.check_namespace_collisions")
class check_namespace_collisions:
    sig = {"hrg1": "LabelTable", "hrg2": "LabelTable"}
    properties = ["C17"]
    locals = {"node_collisions": "list[seq[NodeLabel]]", "edge_collisions": "list[seq[EdgeLabel]]"}
    requires = lambda hrg1, hrg2: label_tables_keyed_by_name(hrg1) and label_tables_keyed_by_name(hrg2)
    loops = {
        0: lambda hrg1, hrg2, node_collisions, _i0, _it0: (
            same_tables(hrg1) and same_tables(hrg2)
            and forall(lambda a, b: ((a, b) in node_collisions) == (
                exists(lambda j: 0 <= j and j < _i0 and _it0[j] == a, "int")
                and a.name in hrg2._node_labels and hrg2._node_labels[a.name] == b and a != b),
                "NodeLabel,NodeLabel")),
        1: lambda hrg1, hrg2, node_collisions, edge_collisions, _i1, _it1: (
            same_tables(hrg1) and same_tables(hrg2)
            and forall(lambda a, b: ((a, b) in edge_collisions) == (
                exists(lambda j: 0 <= j and j < _i1 and _it1[j] == a, "int")
                and a.name in hrg2._edge_labels and hrg2._edge_labels[a.name] == b and a != b),
                "EdgeLabel,EdgeLabel")),
    }
    ensures = {
        # exactly the pairs of labels with equal names and unequal labels
        "edge_collisions": lambda hrg1, hrg2, result: forall(
            lambda a, b: ((a, b) in result[1]) == (
                a in vals(hrg1._edge_labels) and a.name in hrg2._edge_labels
                and hrg2._edge_labels[a.name] == b and a != b), "EdgeLabel,EdgeLabel"),
        "node_collisions": lambda hrg1, hrg2, result: forall(
            lambda a, b: ((a, b) in result[0]) == (
                a in vals(hrg1._node_labels) and a.name in hrg2._node_labels
                and hrg2._node_labels[a.name] == b and a != b), "NodeLabel,NodeLabel"),
        "pure": lambda hrg1, hrg2: same_tables(hrg1) and same_tables(hrg2),
    }



def nts_of(t):
    return [el for el in vals_seq(t._edge_labels) if el.is_nonterminal]

def pairs_ok(nt_map, l0):
    # values are nonterminals typed like the first component, with names that are pairwise distinct
    # and differ from every name in l0
    return (forall(lambda p: implies(p in nt_map, len(p) == 2 and nt_map[p].is_nonterminal
                                     and nt_map[p].node_labels == p[0].node_labels
                                     and forall(lambda l: implies(l in l0, l.name != nt_map[p].name), "EdgeLabel")),
                   "seq[EdgeLabel]")
            and forall(lambda p, q: implies(p in nt_map and q in nt_map and p != q,
                                            nt_map[p].name != nt_map[q].name), "seq[EdgeLabel],seq[EdgeLabel]"))


@contract("fggs.conjunction.nonterminal_pairs")
class nonterminal_pairs:
    sig = {"hrg1": "LabelTable", "hrg2": "LabelTable"}
    properties = ["C17"]
    locals = {"nt_map": "dict[seq[EdgeLabel],EdgeLabel]"}
    requires = lambda hrg1, hrg2: label_tables_keyed_by_name(hrg1) and label_tables_keyed_by_name(hrg2)
    loops = {
        0: lambda hrg1, hrg2, nt_map, labels, _i0, _it0: (
            same_tables(hrg1) and same_tables(hrg2)
            and pairs_ok(nt_map, vals(hrg1._edge_labels) | vals(hrg2._edge_labels))
            and forall(lambda l: implies(l in vals(hrg1._edge_labels) or l in vals(hrg2._edge_labels)
                                         or l in vals(nt_map), l in labels), "EdgeLabel")
            and forall(lambda a, b: ((a, b) in nt_map) == (
                exists(lambda j: 0 <= j and j < _i0 and _it0[j] == a, "int")
                and b in vals(hrg2._edge_labels) and b.is_nonterminal), "EdgeLabel,EdgeLabel")),
        1: lambda hrg1, hrg2, nt_map, labels, el1, _i0, _it0, _i1, _it1: (
            same_tables(hrg1) and same_tables(hrg2)
            and pairs_ok(nt_map, vals(hrg1._edge_labels) | vals(hrg2._edge_labels))
            and forall(lambda l: implies(l in vals(hrg1._edge_labels) or l in vals(hrg2._edge_labels)
                                         or l in vals(nt_map), l in labels), "EdgeLabel")
            and forall(lambda a, b: ((a, b) in nt_map) == (
                (exists(lambda j: 0 <= j and j < _i0 and _it0[j] == a, "int")
                 and b in vals(hrg2._edge_labels) and b.is_nonterminal)
                or (a == el1 and exists(lambda j: 0 <= j and j < _i1 and _it1[j] == b, "int"))),
                "EdgeLabel,EdgeLabel")),
    }
    ensures = {
        "total_on_pairs": lambda hrg1, hrg2, result: forall(
            lambda a, b: ((a, b) in result) == (a in vals(hrg1._edge_labels) and a.is_nonterminal
                                                and b in vals(hrg2._edge_labels) and b.is_nonterminal),
            "EdgeLabel,EdgeLabel"),
        "fresh_unique_typed": lambda hrg1, hrg2, result: pairs_ok(
            result, vals(hrg1._edge_labels) | vals(hrg2._edge_labels)),
        "pure": lambda hrg1, hrg2: same_tables(hrg1) and same_tables(hrg2),
    }


# ---- rule level (C17): which rules are paired, and what the conjoined rule carries ---------------------------
def nt_edge_sigs(g):
    # the signatures (edge id, attachment-node ids in order) of the nonterminal edges of g
    return {(e.id, [n.id for n in e.nodes]) for e in vals(g._edges) if e.label.is_nonterminal}

def same_node_sets(g1, g2):
    return vals(g1._nodes) == vals(g2._nodes)

def same_nt_edges(g1, g2):
    return nt_edge_sigs(g1) == nt_edge_sigs(g2)

def same_ext_ids(g1, g2):
    return [n.id for n in g1._ext] == [n.id for n in g2._ext]


@contract("fggs.conjunction.conjoinable")
class conjoinable:
    sig = {"rule1": "HRGRule", "rule2": "HRGRule"}
    properties = ["C17"]
    returns = "bool"
    requires = lambda rule1, rule2: wf_graph(rule1.rhs) and wf_graph(rule2.rhs)
    ensures = {
        # True exactly for: same nodes, same nonterminal edges by id and attachment, same external nodes (by id, in order)
        "iff": lambda rule1, rule2, result: result == (same_node_sets(rule1.rhs, rule2.rhs)
                                                       and same_nt_edges(rule1.rhs, rule2.rhs)
                                                       and same_ext_ids(rule1.rhs, rule2.rhs)),
        "pure": lambda rule1, rule2: same_graph_state(rule1.rhs) and same_graph_state(rule2.rhs),
    }


def conjoinable_spec(rule1, rule2):
    return (same_node_sets(rule1.rhs, rule2.rhs) and same_nt_edges(rule1.rhs, rule2.rhs)
            and same_ext_ids(rule1.rhs, rule2.rhs))

def nt_map_covers(rule1, rule2, nt_map):
    # the paired label exists for the two left-hand sides and for every pair of nonterminal edges that share an id
    return ((rule1.lhs, rule2.lhs) in nt_map
            and forall(lambda k: implies(k in rule1.rhs._edges and rule1.rhs._edges[k].label.is_nonterminal
                                         and k in rule2.rhs._edges,
                                         (rule1.rhs._edges[k].label, rule2.rhs._edges[k].label) in nt_map), "Id"))

def nt_map_ok(rule1, rule2, nt_map):
    # what nonterminal_pairs guarantees: typed like the first component, names injective and not used by terminals
    return (forall(lambda p: implies(p in nt_map, len(p) == 2 and nt_map[p].is_nonterminal
                                     and nt_map[p].node_labels == p[0].node_labels), "seq[EdgeLabel]")
            and forall(lambda p, q: implies(p in nt_map and q in nt_map and p != q, nt_map[p].name != nt_map[q].name),
                       "seq[EdgeLabel],seq[EdgeLabel]")
            and forall(lambda p, k: implies(p in nt_map and k in rule1.rhs._edges and rule1.rhs._edges[k].label.is_terminal,
                                            nt_map[p].name != rule1.rhs._edges[k].label.name), "seq[EdgeLabel],Id")
            and forall(lambda p, k: implies(p in nt_map and k in rule2.rhs._edges and rule2.rhs._edges[k].label.is_terminal,
                                            nt_map[p].name != rule2.rhs._edges[k].label.name), "seq[EdgeLabel],Id"))

def terminals_compatible(rule1, rule2):
    # conjoin_hrgs has rejected grammars in which one name denotes two different terminal labels
    return forall(lambda a, b: implies(a in rule1.rhs._edges and b in rule2.rhs._edges
                                       and rule1.rhs._edges[a].label.is_terminal and rule2.rhs._edges[b].label.is_terminal
                                       and rule1.rhs._edges[a].label.name == rule2.rhs._edges[b].label.name,
                                       rule1.rhs._edges[a].label == rule2.rhs._edges[b].label), "Id,Id")

def rule_typed(rule):
    return rule.lhs.is_nonterminal and rule.lhs.node_labels == [n.label for n in rule.rhs._ext]

def nt_image(rule2, nt_map, e1, e):
    # e is the conjoined edge for the nonterminal edge e1 of rule1 (its partner in rule2 has the same id)
    return (e.nodes == e1.nodes and e.label == nt_map[(e1.label, rule2.rhs._edges[e1.id].label)]
            and e.id == e1.id and e.persist_id)

def int_ids_alive(g):
    return forall(lambda k: implies(k in g._edges and is_int_id(k), alive(int_of(k))), "Id")

def labels_agree(rule1, rule2, nt_map, g):
    # universal form of "the edge-label table of g holds only paired labels and terminal labels of the two rules":
    # whatever name is present denotes the paired / terminal label of that name
    return (forall(lambda s, p: implies(s in g._edge_labels and p in nt_map and nt_map[p].name == s,
                                        g._edge_labels[s] == nt_map[p]), "str,seq[EdgeLabel]")
            and forall(lambda s, k: implies(s in g._edge_labels and k in rule1.rhs._edges
                                            and rule1.rhs._edges[k].label.is_terminal and rule1.rhs._edges[k].label.name == s,
                                            g._edge_labels[s] == rule1.rhs._edges[k].label), "str,Id")
            and forall(lambda s, k: implies(s in g._edge_labels and k in rule2.rhs._edges
                                            and rule2.rhs._edges[k].label.is_terminal and rule2.rhs._edges[k].label.name == s,
                                            g._edge_labels[s] == rule2.rhs._edges[k].label), "str,Id"))

def explicit_nts(rule1, rule2, nt_map, g, done):
    # nonterminal edges with explicit ids, both directions, for the edges of rule1 in `done`
    return (forall(lambda k: implies(k in g._edges and is_str_id(k) and g._edges[k].label.is_nonterminal,
                                     k in rule1.rhs._edges and rule1.rhs._edges[k] in done
                                     and rule1.rhs._edges[k].label.is_nonterminal
                                     and nt_image(rule2, nt_map, rule1.rhs._edges[k], g._edges[k])), "Id")
            and forall(lambda k: implies(k in rule1.rhs._edges and is_str_id(k) and rule1.rhs._edges[k] in done
                                         and rule1.rhs._edges[k].label.is_nonterminal,
                                         k in g._edges and nt_image(rule2, nt_map, rule1.rhs._edges[k], g._edges[k])), "Id"))

def frame_ok(rule1, rule2, nt_map, g):
    return (same_graph_state(rule1.rhs) and same_graph_state(rule2.rhs) and nt_map == old(nt_map)
            and wf_graph(g) and g._nodes == rule1.rhs._nodes and g._ext == rule1.rhs._ext and int_ids_alive(g)
            and labels_agree(rule1, rule2, nt_map, g))


@contract("fggs.conjunction.conjoin_rules")
class conjoin_rules:
    sig = {"rule1": "HRGRule", "rule2": "HRGRule", "nt_map": "dict[seq[EdgeLabel],EdgeLabel]"}
    properties = ["C17"]
    locals = {"nts2": "dict[Id,Edge]"}
    shards = 12
    note = ("proved: no exception under the stated preconditions (conjoinable rules, paired labels as nonterminal_pairs "
            "yields them, no terminal-label conflict), the conjoined rule carries the nodes and externals of the pair and the "
            "paired left-hand side, its right-hand side is well formed, every nonterminal edge with an explicit id is the "
            "paired edge (label, attachment, id) and vice versa, the arguments are untouched.  Edges with implicit ids and "
            "the terminal edges (forall-exists statements) are left to the bounded stand-in.")
    requires = lambda rule1, rule2, nt_map: (
        wf_graph(rule1.rhs) and wf_graph(rule2.rhs) and nodes_alive(rule1.rhs) and nodes_alive(rule2.rhs)
        and rule_typed(rule1) and rule_typed(rule2) and conjoinable_spec(rule1, rule2)
        and nt_map_covers(rule1, rule2, nt_map) and nt_map_ok(rule1, rule2, nt_map) and terminals_compatible(rule1, rule2))
    lemmas = {
        # every nonterminal edge of rule1 has its partner in rule2 under the same id (from the equal signature sets)
        "partners": lambda rule1, rule2: forall(
            lambda k: implies(k in rule1.rhs._edges and rule1.rhs._edges[k].label.is_nonterminal,
                              k in rule2.rhs._edges and rule2.rhs._edges[k].label.is_nonterminal), "Id"),
        "same_nodes": lambda rule1, rule2: rule1.rhs._nodes == rule2.rhs._nodes,
    }
    loops = {
        0: lambda rule1, rule2, nt_map, new_rhs, _i0, _it0: (
            same_graph_state(rule1.rhs) and same_graph_state(rule2.rhs) and nt_map == old(nt_map)
            and wf_graph(new_rhs) and len(new_rhs._ext) == 0
            and forall(lambda k: k not in new_rhs._edges, "Id") and forall(lambda s: s not in new_rhs._edge_labels, "str")
            and forall(lambda k: (k in new_rhs._nodes) == exists(lambda j: 0 <= j and j < _i0 and _it0[j].id == k, "int"), "Id")
            and forall(lambda j: implies(0 <= j and j < _i0, new_rhs._nodes[_it0[j].id] == _it0[j]), "int")),
        1: lambda rule1, rule2, nt_map, new_rhs, nts2, _i1, _it1, _n1: (
            frame_ok(rule1, rule2, nt_map, new_rhs)
            and forall(lambda k: implies(k in new_rhs._edges, new_rhs._edges[k].label.is_nonterminal), "Id")
            # the ids of the edges still to come are free
            and forall(lambda j: implies(_i1 <= j and j < _n1, _it1[j].id not in new_rhs._edges), "int")
            and explicit_nts(rule1, rule2, nt_map, new_rhs, prefix_set(_it1, _i1))),
        2: lambda rule1, rule2, nt_map, new_rhs, _i2, _it2: (
            frame_ok(rule1, rule2, nt_map, new_rhs)
            and explicit_nts(rule1, rule2, nt_map, new_rhs, vals(rule1.rhs._edges))),
    }
    # the lookup table of rule2's nonterminal edges by id
    checks = {"nts2 = {edge.id: edge for edge in rule2.rhs.edges() if edge.label.is_nonterminal}": lambda rule2, nts2: (
        forall(lambda k: (k in nts2) == (k in rule2.rhs._edges and rule2.rhs._edges[k].label.is_nonterminal), "Id")
        and forall(lambda k: implies(k in nts2, nts2[k] == rule2.rhs._edges[k]), "Id"))}
    ensures = {
        "lhs": lambda rule1, rule2, nt_map, result: result.lhs == nt_map[(rule1.lhs, rule2.lhs)],
        "nodes_and_externals": lambda rule1, rule2, nt_map, result: (
            result.rhs._nodes == rule1.rhs._nodes and result.rhs._ext == rule1.rhs._ext),
        "wf": lambda result: wf_graph(result.rhs),
        # one nonterminal edge per shared (explicit-id) edge, labelled by the pair of labels, same attachment, same id
        "explicit_nonterminal_edges": lambda rule1, rule2, nt_map, result: explicit_nts(
            rule1, rule2, nt_map, result.rhs, vals(rule1.rhs._edges)),
        "pure": lambda rule1, rule2, nt_map: (same_graph_state(rule1.rhs) and same_graph_state(rule2.rhs)
                                              and nt_map == old(nt_map)),
    }


# ---- conjoin_hrgs: control flow (C17) -------------------------------------------------------------------------------
# The grammars are opaque here; the obligations are about which rule pairs are looked at and added:
# every pair of a rule of hrg1 and a rule of hrg2 is tested with conjoinable, and exactly the pairs that pass are conjoined
# and added (no pair is skipped for another reason); a node-label conflict or a conflict between two terminal labels is
# the only source of ValueError before the pairing starts.
@contract("fggs.conjunction.conjoin_hrgs")
class conjoin_hrgs:
    sig = {"hrg1": "opaque", "hrg2": "opaque"}
    properties = ["C17"]
    opaque_calls = ["check_namespace_collisions", "nonterminal_pairs", "HRG", "all_rules", "conjoinable", "conjoin_rules", "add_rule"]
    opaque_results = {"conjoinable": "bool"}
    may_raise = ["ValueError"]
    loops = {
        0: lambda: count("conjoinable") == 0 and count("add_rule") == 0 and iterations(3) == 0,
        1: lambda: count("conjoinable") == 0 and count("add_rule") == 0 and iterations(3) == 0,
        2: lambda: (count("conjoin_rules") == count_true("conjoinable") and count("add_rule") == count_true("conjoinable")
                    and count("conjoinable") == iterations(3)),
        3: lambda: (count("conjoin_rules") == count_true("conjoinable") and count("add_rule") == count_true("conjoinable")
                    and count("conjoinable") == iterations(3)),
    }
    ensures = {
        # every pair (rule of hrg1, rule of hrg2) that the two loops enumerate is tested with conjoinable ...
        "every_pair_is_tested": lambda: count("conjoinable") == iterations(3),
        # ... and exactly the pairs that pass are conjoined and added
        "exactly_the_conjoinable_pairs": lambda: (
            count("conjoin_rules") == count_true("conjoinable") and count("add_rule") == count_true("conjoinable")),
    }
