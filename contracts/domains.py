# Contracts for fggs/domains.py  (C20)

def distinct(vs):
    return forall(lambda i, j: implies(0 <= i and i < j and j < len(vs), vs[i] != vs[j]), "int,int")

def wf_finite_domain(d):
    # values pairwise distinct; _value_index is exactly the inverse of values
    return (distinct(d.values)
            and forall(lambda i: implies(0 <= i and i < len(d.values),
                                         d.values[i] in d._value_index and d._value_index[d.values[i]] == i), "int")
            and forall(lambda v: implies(v in d._value_index,
                                         0 <= d._value_index[v] and d._value_index[v] < len(d.values)
                                         and d.values[d._value_index[v]] == v), "PyVal"))

def same_domain_state(d):
    return d.values == old(d.values) and d._value_index == old(d._value_index)


@contract("fggs.domains.FiniteDomain.__init__")
class FiniteDomain_init:
    sig = {"self": "FiniteDomain", "values": "seq[PyVal]"}
    properties = ["C20"]
    requires = lambda self, values: distinct(values)
    ensures = {"established": lambda self, values: wf_finite_domain(self) and self.values == values}


@contract("fggs.domains.FiniteDomain.size")
class FiniteDomain_size:
    sig = {"self": "FiniteDomain"}
    properties = ["C20"]
    ensures = {"value": lambda self, result: result == len(self.values) and same_domain_state(self)}


@contract("fggs.domains.FiniteDomain.contains")
class FiniteDomain_contains:
    sig = {"self": "FiniteDomain", "value": "PyVal"}
    properties = ["C20"]
    requires = lambda self, value: wf_finite_domain(self)
    ensures = {"value": lambda self, value, result: (result == (value in self.values)
                                                     and result == (value in self._value_index)
                                                     and same_domain_state(self))}


@contract("fggs.domains.FiniteDomain.numberize")
class FiniteDomain_numberize:
    sig = {"self": "FiniteDomain", "value": "PyVal"}
    properties = ["C20"]
    requires = lambda self, value: wf_finite_domain(self)
    ensures = {"inverse": lambda self, value, result: (0 <= result and result < len(self.values)
                                                       and self.values[result] == value
                                                       and same_domain_state(self))}
    raises = {"KeyError": lambda self, value: value not in self.values}
    on_raise = {"KeyError": lambda self, value: same_domain_state(self)}


@contract("fggs.domains.FiniteDomain.denumberize")
class FiniteDomain_denumberize:
    sig = {"self": "FiniteDomain", "num": "int"}
    properties = ["C20"]
    requires = lambda self, num: wf_finite_domain(self) and 0 <= num and num < len(self.values)
    ensures = {"inverse": lambda self, num, result: (result == self.values[num]
                                                     and result in self._value_index
                                                     and self._value_index[result] == num
                                                     and same_domain_state(self))}


@contract("fggs.domains.FiniteDomain.__eq__")
class FiniteDomain_eq:
    sig = {"self": "FiniteDomain", "other": "FiniteDomain"}
    properties = ["C20"]
    ensures = {"by_content": lambda self, other, result: result == (self.values == other.values)}


@contract("fggs.domains.FiniteDomain.__ne__")
class FiniteDomain_ne:
    sig = {"self": "FiniteDomain", "other": "FiniteDomain"}
    properties = ["C20"]
    ensures = {"negation": lambda self, other, result: result == (self.values != other.values)}


@contract("fggs.domains.RangeDomain.__init__")
class RangeDomain_init:
    sig = {"self": "RangeDomain", "size": "int"}
    properties = ["C20"]
    ensures = {"established": lambda self, size: self._size == size}


@contract("fggs.domains.RangeDomain.contains")
class RangeDomain_contains:
    sig = {"self": "RangeDomain", "value": "int"}
    properties = ["C20"]
    ensures = {"value": lambda self, value, result: result == (0 <= value and value < self._size)
               and self._size == old(self._size)}


@contract("fggs.domains.RangeDomain.numberize")
class RangeDomain_numberize:
    sig = {"self": "RangeDomain", "num": "int"}
    properties = ["C20"]
    ensures = {"identity": lambda self, num, result: result == num and self._size == old(self._size)}


@contract("fggs.domains.RangeDomain.denumberize")
class RangeDomain_denumberize:
    sig = {"self": "RangeDomain", "num": "int"}
    properties = ["C20"]
    ensures = {"identity": lambda self, num, result: result == num and self._size == old(self._size)}


@contract("fggs.domains.RangeDomain.size")
class RangeDomain_size:
    sig = {"self": "RangeDomain"}
    properties = ["C20"]
    ensures = {"value": lambda self, result: result == self._size and self._size == old(self._size)}


@contract("fggs.domains.RangeDomain.__eq__")
class RangeDomain_eq:
    sig = {"self": "RangeDomain", "other": "RangeDomain"}
    properties = ["C20"]
    ensures = {"by_size": lambda self, other, result: result == (self._size == other._size)}
