# Contracts for fggs/multi.py (C09): the elimination order of multi_solve

def dfs_inv(nonterminal_graph, visited, finish_times):
    # finished vertices are visited and all their successors are visited
    return forall(lambda u, w: implies(u in finish_times, u in visited
                                       and implies(u in nonterminal_graph and w in nonterminal_graph[u], w in visited)), "PyVal,PyVal")


@contract("fggs.multi._order_nonterminals.dfs")
class order_dfs:
    sig = {"node": "PyVal", "nonterminal_graph": "dict[PyVal,set[PyVal]]", "visited": "set[PyVal]",
           "finish_times": "dict[PyVal,int]", "time": "int"}
    properties = ["C09"]
    captures = ["nonterminal_graph", "visited", "finish_times", "time"]
    nonlocals = ["time"]
    modular = True
    modifies = ["visited", "finish_times", "time"]
    requires = lambda nonterminal_graph, visited, finish_times: dfs_inv(nonterminal_graph, visited, finish_times)
    loops = {0: lambda node, nonterminal_graph, visited, finish_times, _i0, _it0: (
        nonterminal_graph == old(nonterminal_graph) and dfs_inv(nonterminal_graph, visited, finish_times)
        and node in visited
        and forall(lambda u: implies(u in old(visited), u in visited), "PyVal")
        and forall(lambda u: implies(u in old(finish_times), u in finish_times), "PyVal")
        # whatever this call has visited so far, other than the node itself, is finished
        and forall(lambda u: implies(u in visited and u not in old(visited) and u != node, u in finish_times), "PyVal")
        and forall(lambda j: implies(0 <= j and j < _i0, _it0[j] in visited), "int"))}
    ensures = {
        "invariant": lambda nonterminal_graph, visited, finish_times: dfs_inv(nonterminal_graph, visited, finish_times),
        "frame": lambda nonterminal_graph: nonterminal_graph == old(nonterminal_graph),
        "progress": lambda node, visited, finish_times: (
            node in finish_times
            and forall(lambda u: implies(u in old(visited), u in visited), "PyVal")
            and forall(lambda u: implies(u in old(finish_times), u in finish_times), "PyVal")
            # everything visited by this call is finished when it returns
            and forall(lambda u: implies(u in visited and u not in old(visited), u in finish_times), "PyVal")),
    }


def graph_from_blocks(a, g):
    # every edge of the graph comes from a block of a
    return forall(lambda x, y: implies(x in g and y in g[x], (x, y) in a._dict), "PyVal,PyVal")

def finished_closed(g, finish_times):
    return forall(lambda u, w: implies(u in finish_times and u in g and w in g[u], w in finish_times), "PyVal,PyVal")

def keys_within_shapes(a):
    # every block of a is indexed by a pair of indices of its shapes
    return (forall(lambda p: implies(p in a._dict, len(p) == 2), "seq[PyVal]")
            and forall(lambda x, y: implies((x, y) in a._dict, x in a.shapes[0] and y in a.shapes[0]), "PyVal,PyVal"))


@contract("fggs.multi._order_nonterminals")
class order_nonterminals:
    sig = {"a": "MultiTensor"}
    properties = ["C09"]
    locals = {"nonterminal_graph": "dict[PyVal,set[PyVal]]", "finish_times": "dict[PyVal,int]", "visited": "set[PyVal]",
              "nonlinking_nonterminals": "set[PyVal]"}
    returns = "list[PyVal]"
    requires = lambda a: keys_within_shapes(a)
    loops = {
        0: lambda a, nonterminal_graph: a._dict == old(a._dict) and graph_from_blocks(a, nonterminal_graph),
        2: lambda a, nonterminal_graph, finish_times, nonlinking_nonterminals: (
            a._dict == old(a._dict) and graph_from_blocks(a, nonterminal_graph) and finished_closed(nonterminal_graph, finish_times)
            and forall(lambda y: implies(y in nonlinking_nonterminals, y in a.shapes[0]), "PyVal")),
        3: lambda a, nonterminal_graph, finish_times, nonlinking_nonterminals, x: (
            a._dict == old(a._dict) and graph_from_blocks(a, nonterminal_graph) and finished_closed(nonterminal_graph, finish_times)
            and x in finish_times and x in nonterminal_graph
            and forall(lambda y: implies(y in nonlinking_nonterminals, y in a.shapes[0]), "PyVal")),
    }
    # after the depth-first search from the row of the last block: every successor of a finished vertex is finished
    checks = {"dfs(start)": lambda nonterminal_graph, finish_times: finished_closed(nonterminal_graph, finish_times)}
    ensures = {
        # every index of the shapes occurs in the order, exactly once, and nothing else does: multi_solve eliminates and
        # back-substitutes every nonterminal (when a has any block at all)
        "is_a_permutation_of_the_indices": lambda a, result: implies(
            exists(lambda p: p in a._dict, "seq[PyVal]"),
            forall(lambda x: (x in result) == (x in a.shapes[0]), "PyVal")
            and forall(lambda i, j: implies(0 <= i and i < j and j < len(result), result[i] != result[j]), "int,int")),
        "empty_without_blocks": lambda a, result: implies(not exists(lambda p: p in a._dict, "seq[PyVal]"), len(result) == 0),
        "pure": lambda a: a._dict == old(a._dict),
    }
