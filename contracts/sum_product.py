# Contracts for the control flow of fggs/sum_product.py  (C02: "exhausted budget => warning")
# F, J, x0 and every MultiTensor operation are opaque: the obligations are about control flow only.

@contract("fggs.sum_product.fixed_point")
class fixed_point:
    sig = {"F": "opaque", "x0": "opaque", "tol": "opaque", "kmax": "int"}
    properties = ["C02"]
    opaque_results = {"shouldStop": "bool"}
    loops = {0: lambda k, kmax: k >= 0 and count("F") == k + 1 and implies(kmax >= 0, k <= kmax + 1) and not warned()}
    ensures = {
        # leaving the iteration without the stopping criterion being met => a warning was issued
        "stops_or_warns": lambda: last("shouldStop") or warned(),
        "budget": lambda kmax: implies(kmax >= 0, count("F") <= kmax + 2),
    }


@contract("fggs.sum_product.newton")
class newton:
    sig = {"F": "opaque", "J": "opaque", "x0": "opaque", "tol": "opaque", "kmax": "int"}
    properties = ["C02"]
    opaque_results = {"shouldStop": "bool"}
    opaque_calls = ["MultiTensor", "multi_solve"]
    loops = {0: lambda _i: count("F") == _i and count("shouldStop") == _i and not warned()}
    ensures = {
        "stops_or_warns": lambda: last("shouldStop") or warned(),
        "budget": lambda kmax: implies(kmax >= 0, count("F") <= kmax),
        # the stopping criterion is evaluated exactly once per evaluation of F (on that evaluation's result): no other
        # test may stand in for it when the budget runs out
        "criterion_per_step": lambda: count("shouldStop") == count("F"),
    }


# ---- bookkeeping of duplicated external nodes (C01 / C03: `ext + edge.nodes` may repeat a node) ------------
@contract("fggs.sum_product.rename_duplicate_nodes")
class rename_duplicate_nodes:
    sig = {"fgg": "opaque", "ext": "seq[Node]", "tensors": "opaque", "indexing": "list[seq[Node]]",
           "connected": "set[Node]", "semiring": "opaque"}
    properties = ["C01", "C03"]
    locals = {"ext": "list[Node]"}
    opaque_calls = ["eye"]
    # the nodes passed in exist (their implicit ids are ids of live objects)
    requires = lambda ext: forall(lambda j: implies(0 <= j and j < len(ext) and is_int_id(ext[j].id),
                                                    alive(int_of(ext[j].id))), "int")
    loops = {0: lambda ext, ext_orig, connected, indexing, _i0: (
        # one identity factor and one index pair per renamed node (the call counters start at zero in every use)
        count("append") == count("eye") and len(indexing) == len(old(indexing)) + count("eye")
        and forall(lambda j: implies(0 <= j and j < len(old(indexing)), indexing[j] == old(indexing)[j]), "int")
        and len(ext) == _i0
        and forall(lambda j, m: implies(0 <= j and j < m and m < _i0, ext[j] != ext[m]), "int,int")
        and forall(lambda j: implies(0 <= j and j < _i0,
                                     (ext[j] == ext_orig[j]) == (not exists(lambda m: 0 <= m and m < j and ext_orig[m] == ext_orig[j], "int"))
                                     and ext[j].label == ext_orig[j].label
                                     and implies(ext[j] != ext_orig[j],
                                                 is_int_id(ext[j].id) and not was_alive(int_of(ext[j].id))
                                                 and ext[j] in connected and ext_orig[j] in connected)), "int")
        and forall(lambda j: implies(0 <= j and j < _i0, ext_orig[j] in ext), "int")
        and forall(lambda j: implies(0 <= j and j < _i0 and is_int_id(ext[j].id), alive(int_of(ext[j].id))), "int")
        and forall(lambda v: implies(v in old(connected), v in connected), "Node"))}
    ensures = {
        # same length, pairwise distinct, first occurrences kept, later occurrences replaced by fresh copies
        "renamed_apart": lambda ext, result: (
            len(result[0]) == len(ext)
            and forall(lambda j, m: implies(0 <= j and j < m and m < len(ext), result[0][j] != result[0][m]), "int,int")
            and forall(lambda j: implies(0 <= j and j < len(ext),
                                         (result[0][j] == ext[j]) == (not exists(lambda m: 0 <= m and m < j and ext[m] == ext[j], "int"))
                                         and result[0][j].label == ext[j].label), "int")),
        "copies_are_connected": lambda ext, connected, result: forall(
            lambda j: implies(0 <= j and j < len(ext) and result[0][j] != ext[j],
                              result[0][j] in connected and ext[j] in connected), "int"),
        "connected_only_grows": lambda connected: forall(lambda v: implies(v in old(connected), v in connected), "Node"),
        "one_factor_per_index_pair": lambda indexing: (count("append") == count("eye")
                                                       and len(indexing) == len(old(indexing)) + count("eye")),
    }


# ---- method='linear' raises ValueError exactly on grammars that are not linearly recursive (C02) -----------
def two_unresolved(r, inputs):
    # the rule has two right-hand-side edges whose labels are not among the already computed inputs
    return exists(lambda a, b: 0 <= a and a < b and b < len(r.rhs.edges())
                  and r.rhs.edges()[a].label not in inputs and r.rhs.edges()[b].label not in inputs, "int,int")


def rules_of(fgg, n):
    # the rules the grammar has for n, as HRG.rules returns them (verified contract): the table entry, or nothing
    return fgg._rules[n] if n in fgg._rules else []


@contract("fggs.sum_product.linear")
class linear:
    sig = {"fgg": "HRGTable", "inputs": "opaque", "out_labels": "seq[EdgeLabel]", "semiring": "opaque"}
    properties = ["C02"]
    opaque_calls = ["FGGMultiShape", "MultiTensor", "sum_product_edges", "multi_solve", "print_duplicate"]
    opaque_results = {"print_duplicate": "bool"}
    loops = {
        0: lambda fgg, inputs, out_labels, _i0: (
            fgg._rules == old(fgg._rules)
            and forall(lambda i, j: implies(0 <= i and i < _i0 and out_labels[i] not in inputs and out_labels[i] in fgg._rules
                                            and 0 <= j and j < len(fgg._rules[out_labels[i]]),
                                            not two_unresolved(fgg._rules[out_labels[i]][j], inputs)), "int,int")),
        1: lambda fgg, inputs, out_labels, n, _i0, _i1, _it1: (
            fgg._rules == old(fgg._rules)
            and _it1 == (fgg._rules[n] if n in fgg._rules else _it1) and implies(n not in fgg._rules, len(_it1) == 0)
            and forall(lambda i, j: implies(0 <= i and i < _i0 and out_labels[i] not in inputs and out_labels[i] in fgg._rules
                                            and 0 <= j and j < len(fgg._rules[out_labels[i]]),
                                            not two_unresolved(fgg._rules[out_labels[i]][j], inputs)), "int,int")
            and forall(lambda j: implies(0 <= j and j < _i1, not two_unresolved(_it1[j], inputs)), "int")),
    }
    # cut: when the error message is being built, the current rule has two unresolved edges
    checks = {"rhs = ' '.join((e.label.name for e in edges))": lambda rule, inputs: two_unresolved(rule, inputs)}
    ensures = {"linearly_recursive": lambda fgg, inputs, out_labels: forall(
        lambda i, j: implies(0 <= i and i < len(out_labels) and out_labels[i] not in inputs and out_labels[i] in fgg._rules
                             and 0 <= j and j < len(fgg._rules[out_labels[i]]),
                             not two_unresolved(fgg._rules[out_labels[i]][j], inputs)), "int,int")}
    raises = {"ValueError": lambda fgg, inputs, out_labels: exists(
        lambda i, j: 0 <= i and i < len(out_labels) and out_labels[i] not in inputs and out_labels[i] in fgg._rules
        and 0 <= j and j < len(fgg._rules[out_labels[i]])
        and two_unresolved(fgg._rules[out_labels[i]][j], inputs), "int,int")}


# ---- per-component choice of the solver in sum_products (C01 / C02) ----------------------------------------
@contract("fggs.sum_product.sum_products")
class sum_products:
    sig = {"fgg": "opaque", "opts": "dict[str,PyVal]"}
    properties = ["C01", "C02"]
    locals = {"inputs": "opaque"}
    opaque_calls = ["scc", "nonterminal_graph", "apply_to_patterned_tensors", "RealSemiring", "cast"]
    loops = {0: lambda: True,
             1: lambda max_rhs: max_rhs >= 0,
             2: lambda max_rhs: max_rhs >= 0,
             3: lambda max_rhs, n: max_rhs >= 0 and n >= 0}
    # which method each strongly connected component is solved with:
    #   one-step   iff it is a single nonterminal none of whose rules mentions the component (acyclic),
    #   linear     instead of newton iff no rule has more than one edge inside the component,
    #   otherwise the method the caller asked for
    checks = {"comp_values = SumProduct.apply_to_patterned_tensors(fgg, comp_opts, inputs.keys(), comp_labels, *inputs.values())":
              lambda comp, comp_opts, opts, max_rhs: (
                  implies(len(comp) == 1 and max_rhs == 0, comp_opts["method"] == "one-step")
                  and implies(not (len(comp) == 1 and max_rhs == 0) and max_rhs == 1 and opts["method"] == "newton",
                              comp_opts["method"] == "linear")
                  and implies(not (len(comp) == 1 and max_rhs == 0) and not (max_rhs == 1 and opts["method"] == "newton"),
                              comp_opts["method"] == opts["method"])
                  and forall(lambda s: implies(s != "method", (s in comp_opts) == (s in opts)
                                               and implies(s in opts, comp_opts[s] == opts[s])), "str"))}


# ---- sum_product_edges: what is handed to einsum (C01, C03) ---------------------------------------------------------
# Tensors, weights and the grammar are opaque; the obligations are about the index bookkeeping at the einsum call:
# one tensor per index list; the index lists of the edges come in edge order after the identity factors of duplicated
# external nodes; every attachment node counts as connected; the output nodes are pairwise different nodes of the
# (renamed) externals that are connected; every edge's weight is looked up, and None is returned without calling einsum
# exactly when some lookup fails.
@contract("fggs.sum_product.sum_product_edges")
class sum_product_edges:
    sig = {"fgg": "opaque", "nodes": "seq[Node]", "edges": "seq[Edge]", "ext": "seq[Node]", "inputses": "opaque", "semiring": "opaque"}
    properties = ["C01", "C03"]
    locals = {"connected": "set[Node]", "indexing": "list[seq[Node]]", "tensors": "opaque", "ext": "list[Node]"}
    opaque_calls = ["eye", "get_weight", "einsum", "multiply_in_disconnected_internals", "view", "expand", "shape", "print"]
    requires = lambda ext: forall(lambda j: implies(0 <= j and j < len(ext) and is_int_id(ext[j].id), alive(int_of(ext[j].id))), "int")
    loops = {0: lambda edges, indexing, connected, _i0: (
        count("get_weight") == _i0 and count("einsum") == 0
        and count("append") == len(indexing)
        and len(indexing) >= _i0
        and forall(lambda j: implies(0 <= j and j < _i0, indexing[len(indexing) - _i0 + j] == edges[j].nodes), "int")
        and forall(lambda j, m: implies(0 <= j and j < _i0 and 0 <= m and m < len(edges[j].nodes),
                                        edges[j].nodes[m] in connected), "int,int"))}
    checks = {"out = einsum(tensors, indexing, outputs, semiring)": lambda edges, ext, indexing, connected, outputs: (
        count("append") == len(indexing) and len(indexing) >= len(edges) and count("get_weight") == len(edges)
        and forall(lambda j: implies(0 <= j and j < len(edges), indexing[len(indexing) - len(edges) + j] == edges[j].nodes), "int")
        and forall(lambda j, m: implies(0 <= j and j < len(edges) and 0 <= m and m < len(edges[j].nodes),
                                        edges[j].nodes[m] in connected), "int,int")
        and forall(lambda a: implies(0 <= a and a < len(outputs), outputs[a] in ext and outputs[a] in connected), "int")
        and forall(lambda a, b: implies(0 <= a and a < b and b < len(outputs), outputs[a] != outputs[b]), "int,int"))}
    may_raise = ["AssertionError"]          # the dtype assertions are about tensors: not modelled
    ensures = {"einsum_once_or_none": lambda result: (
        count("einsum") <= 1 and implies(count("einsum") == 0, result is None))}
