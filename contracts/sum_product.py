# Contracts for the control flow of fggs/sum_product.py  (C02: "exhausted budget => warning")
# F, J, x0 and every MultiTensor operation are opaque: the obligations are about control flow only.

@contract("fggs.sum_product.fixed_point")
class fixed_point:
    sig = {"F": "opaque", "x0": "opaque", "tol": "opaque", "kmax": "int"}
    properties = ["C02"]
    opaque_results = {"shouldStop": "bool"}
    loops = {0: lambda k, kmax: k >= 0 and count("F") == k + 1 and implies(kmax >= 0, k <= kmax + 1) and not warned()}
    ensures = {
        # leaving the iteration without the stopping criterion being met => a warning was issued
        "stops_or_warns": lambda: last("shouldStop") or warned(),
        "budget": lambda kmax: implies(kmax >= 0, count("F") <= kmax + 2),
    }


@contract("fggs.sum_product.newton")
class newton:
    sig = {"F": "opaque", "J": "opaque", "x0": "opaque", "tol": "opaque", "kmax": "int"}
    properties = ["C02"]
    opaque_results = {"shouldStop": "bool"}
    opaque_calls = ["MultiTensor", "multi_solve"]
    loops = {0: lambda _i: count("F") == _i and not warned()}
    ensures = {
        "stops_or_warns": lambda: last("shouldStop") or warned(),
        "budget": lambda kmax: implies(kmax >= 0, count("F") <= kmax),
    }
