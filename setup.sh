#!/bin/bash
# Build the overlay interpreter used by every check (offline, idempotent).
#   /verif/.venv  = python 3.12 venv on top of /venv's site-packages (torch, fggs deps)
#                   + z3-solver, jsonschema, deal, icontract, crosshair-tool from the wheelhouse
set -e
cd "$(dirname "$0")"
V=.venv
if [ -x "$V/bin/python" ] && "$V/bin/python" -c "import z3, jsonschema, torch" 2>/dev/null; then
  echo "setup: $V already usable"
  exit 0
fi
rm -rf "$V"
/venv/bin/python -m venv "$V"
SP=$("$V/bin/python" -c "import sysconfig; print(sysconfig.get_paths()['purelib'])")
echo "import site; site.addsitedir('/venv/lib/python3.12/site-packages')" > "$SP/_base.pth"
export PIP_NO_INDEX=1
"$V/bin/pip" install -q --no-index --find-links /opt/veriftools/wheels \
    z3-solver jsonschema deal icontract crosshair-tool >/dev/null
"$V/bin/python" -c "import z3, jsonschema, torch; print('setup: ok z3', z3.get_version_string())"
